#![no_main]
use libfuzzer_sys::fuzz_target;

fuzz_target!(|data: &[u8]| {
    fcverif::fuzz_entry::fuzz_one("fuzz_huffman", data);
});
