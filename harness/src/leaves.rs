//! Leaf specs: mirror, owned slices, strings, plain vectors as regions, coded regions.

use std::fmt::Debug;
use std::hash::Hash;
use std::marker::PhantomData;
use std::num::Wrapping;
use std::time::Duration;

use flatcontainer::impls::codec::{Codec, CodecRegion, DictionaryCodec};
use flatcontainer::impls::huffman_container::HuffmanContainer;
use flatcontainer::{
    IntoOwned, MirrorRegion, OwnedRegion, Push, PushIter, Region, StringRegion,
};
use serde::de::DeserializeOwned;
use serde::Serialize;

use crate::spec::*;
use crate::tape::Tape;

/// Dispatch a `Vec<T>` of length 0..=4 to a fixed-size array binding.
#[macro_export]
macro_rules! arr_dispatch {
    ($vec:expr, $a:ident => $body:expr, else => $else:expr) => {{
        let __v = $vec;
        match __v.len() {
            0 => {
                let $a: [_; 0] = __v.try_into().ok().unwrap();
                $body
            }
            1 => {
                let $a: [_; 1] = __v.try_into().ok().unwrap();
                $body
            }
            2 => {
                let $a: [_; 2] = __v.try_into().ok().unwrap();
                $body
            }
            3 => {
                let $a: [_; 3] = __v.try_into().ok().unwrap();
                $body
            }
            4 => {
                let $a: [_; 4] = __v.try_into().ok().unwrap();
                $body
            }
            _ => {
                let $a = __v;
                $else
            }
        }
    }};
}

// ---------------------------------------------------------------------------------------------
// Mirror
// ---------------------------------------------------------------------------------------------

/// A primitive stored in a `MirrorRegion`.
pub trait Prim:
    Copy + 'static + flatcontainer::Index + for<'a> IntoOwned<'a, Owned = Self> + Debug
{
    type V: Clone + Debug + Eq + Hash + Serialize + DeserializeOwned + Send + Sync + 'static;
    const NAME: &'static str;
    const JSON_SAFE: bool = true;
    const UNIT: bool = false;
    fn to_v(self) -> Self::V;
    fn from_v(v: &Self::V) -> Self;
    fn gen(t: &mut Tape, p: &Gp) -> Self::V;
    fn classes(_v: &Self::V, _out: &mut Vec<&'static str>) {}
    fn shrink(_v: &Self::V) -> Vec<Self::V> {
        Vec::new()
    }
}

fn gen_u128(t: &mut Tape, p: &Gp) -> u128 {
    if p.small {
        return t.below(3) as u128;
    }
    match t.below(16) {
        0 => 0,
        1 => 1,
        2 => u128::MAX,
        3 => u128::MAX - 1,
        4 => (1u128 << 31) - 1,
        5 => (1u128 << 31) + 1,
        6 => (1u128 << 32) - 1,
        7 => (1u128 << 32) + 1,
        8 => 1u128 << 63,
        9 => (1u128 << 63) - 1,
        10 => 1u128 << 127,
        11 => t.u8() as u128,
        12 => t.u16() as u128,
        13 => t.u32() as u128,
        14 => t.u64() as u128,
        _ => t.u128(),
    }
}

macro_rules! prim_int {
    ($($t:ty),*) => {$(
        impl Prim for $t {
            type V = $t;
            const NAME: &'static str = stringify!($t);
            fn to_v(self) -> $t { self }
            fn from_v(v: &$t) -> $t { *v }
            fn gen(t: &mut Tape, p: &Gp) -> $t {
                let x = gen_u128(t, p);
                if x == u128::MAX { <$t>::MAX } else if x == u128::MAX - 1 { <$t>::MIN } else { x as $t }
            }
            fn classes(v: &$t, out: &mut Vec<&'static str>) {
                if *v == <$t>::MAX || *v == <$t>::MIN { out.push("extreme-int"); }
            }
            fn shrink(v: &$t) -> Vec<$t> { if *v != 0 { vec![0, *v / 2] } else { vec![] } }
        }
    )*};
}
prim_int!(u8, u16, u32, u64, u128, usize, i8, i16, i32, i64, i128, isize);

macro_rules! prim_wrapping {
    ($($t:ty),*) => {$(
        impl Prim for Wrapping<$t> {
            type V = $t;
            const NAME: &'static str = concat!("Wrapping<", stringify!($t), ">");
            fn to_v(self) -> $t { self.0 }
            fn from_v(v: &$t) -> Self { Wrapping(*v) }
            fn gen(t: &mut Tape, p: &Gp) -> $t { <$t as Prim>::gen(t, p) }
            fn classes(v: &$t, out: &mut Vec<&'static str>) { <$t as Prim>::classes(v, out) }
        }
    )*};
}
prim_wrapping!(i8, i16, i32, i64, i128, isize);

impl Prim for () {
    type V = ();
    const NAME: &'static str = "()";
    const UNIT: bool = true;
    fn to_v(self) {}
    fn from_v(_: &()) {}
    fn gen(t: &mut Tape, _p: &Gp) {
        let _ = t.u8();
    }
    fn classes(_: &(), out: &mut Vec<&'static str>) {
        out.push("zst");
    }
}
impl Prim for bool {
    type V = bool;
    const NAME: &'static str = "bool";
    fn to_v(self) -> bool {
        self
    }
    fn from_v(v: &bool) -> bool {
        *v
    }
    fn gen(t: &mut Tape, _p: &Gp) -> bool {
        t.bool()
    }
}
impl Prim for char {
    type V = char;
    const NAME: &'static str = "char";
    fn to_v(self) -> char {
        self
    }
    fn from_v(v: &char) -> char {
        *v
    }
    fn gen(t: &mut Tape, p: &Gp) -> char {
        gen_char(t, p)
    }
}
impl Prim for f32 {
    type V = u32;
    const NAME: &'static str = "f32";
    const JSON_SAFE: bool = false;
    fn to_v(self) -> u32 {
        self.to_bits()
    }
    fn from_v(v: &u32) -> f32 {
        f32::from_bits(*v)
    }
    fn gen(t: &mut Tape, p: &Gp) -> u32 {
        if p.small {
            return [0u32, 0x7fc00000, 0x3f800000][t.below(3)];
        }
        match t.below(12) {
            0 => 0,
            1 => 0x8000_0000,             // -0.0
            2 => 0x7fc0_0000,             // quiet NaN
            3 => 0x7fc0_0001,             // NaN, other payload
            4 => 0xffc0_0000,             // negative NaN
            5 => 0x7fa0_0000,             // signalling NaN
            6 => 0x7f80_0000,             // +inf
            7 => 0xff80_0000,             // -inf
            8 => 1,                       // smallest subnormal
            9 => 0x3f80_0000,             // 1.0
            _ => t.u32(),
        }
    }
    fn classes(v: &u32, out: &mut Vec<&'static str>) {
        if f32::from_bits(*v).is_nan() {
            out.push("nan-bits");
        }
    }
}
impl Prim for f64 {
    type V = u64;
    const NAME: &'static str = "f64";
    const JSON_SAFE: bool = false;
    fn to_v(self) -> u64 {
        self.to_bits()
    }
    fn from_v(v: &u64) -> f64 {
        f64::from_bits(*v)
    }
    fn gen(t: &mut Tape, p: &Gp) -> u64 {
        if p.small {
            return [0u64, 0x7ff8000000000000, 0x3ff0000000000000][t.below(3)];
        }
        match t.below(12) {
            0 => 0,
            1 => 0x8000_0000_0000_0000,
            2 => 0x7ff8_0000_0000_0000,
            3 => 0x7ff8_0000_0000_0001,
            4 => 0xfff8_0000_0000_0000,
            5 => 0x7ff4_0000_0000_0000,
            6 => 0x7ff0_0000_0000_0000,
            7 => 0xfff0_0000_0000_0000,
            8 => 1,
            9 => 0x3ff0_0000_0000_0000,
            _ => t.u64(),
        }
    }
    fn classes(v: &u64, out: &mut Vec<&'static str>) {
        if f64::from_bits(*v).is_nan() {
            out.push("nan-bits");
        }
    }
}
impl Prim for Duration {
    type V = (u64, u32);
    const NAME: &'static str = "Duration";
    fn to_v(self) -> (u64, u32) {
        (self.as_secs(), self.subsec_nanos())
    }
    fn from_v(v: &(u64, u32)) -> Duration {
        Duration::new(v.0, v.1)
    }
    fn gen(t: &mut Tape, p: &Gp) -> (u64, u32) {
        let s = <u64 as Prim>::gen(t, p);
        let n = match t.below(4) {
            0 => 0,
            1 => 999_999_999,
            _ => t.u32() % 1_000_000_000,
        };
        (s, n)
    }
}

pub struct Mirror<T>(PhantomData<T>);

impl<T: Prim> Spec for Mirror<T> {
    type R = MirrorRegion<T>;
    type V = T::V;
    type M = ();
    const JSON_SAFE: bool = T::JSON_SAFE;
    const UNIT_INDEX: bool = T::UNIT;
    fn name() -> String {
        format!("Mirror<{}>", T::NAME)
    }
    fn gen(t: &mut Tape, p: &Gp) -> T::V {
        T::gen(t, p)
    }
    fn shrink(v: &T::V) -> Vec<T::V> {
        T::shrink(v)
    }
    fn owned(v: &T::V) -> T {
        T::from_v(v)
    }
    fn unowned(o: &T) -> T::V {
        o.to_v()
    }
    fn check<'a>(item: T, v: &T::V, _cx: &mut Cx) -> Result<(), String> {
        if item.to_v() != *v {
            return Err(format!("mirror read {:?} != pushed {:?}", item.to_v(), v));
        }
        let o = IntoOwned::into_owned(item);
        if o.to_v() != *v {
            return Err(format!("mirror into_owned {:?} != pushed {:?}", o.to_v(), v));
        }
        Ok(())
    }
    fn push_via<K: Sink<Self::R>>(k: &mut K, v: &T::V, f: &mut Forms) -> K::Out {
        let x = T::from_v(v);
        match f.pick("Mirror", &["&T", "T", "&&T"]) {
            0 => k.put(&x),
            1 => k.put(x),
            _ => k.put(&&x),
        }
    }
    fn push_read<'a, K: Sink<Self::R>>(k: &mut K, item: RI<'a, Self>) -> K::Out {
        k.put(item)
    }
    fn push_all_via<K: BatchSink<Self::R>>(k: &mut K, vs: &[T::V], f: &mut Forms) {
        let xs: Vec<T> = vs.iter().map(T::from_v).collect();
        match f.pick("Mirror(batch)", &["&T", "T"]) {
            0 => k.put_all(xs.iter()),
            _ => k.put_all(xs.into_iter()),
        }
    }
    fn reserve_items<K: RSink<Self::R>>(k: &mut K, vs: &[T::V], f: &mut Forms) -> bool {
        let xs: Vec<T> = vs.iter().map(T::from_v).collect();
        match f.pick("Mirror(reserve)", &["&T", "T"]) {
            0 => k.reserve(xs.iter()),
            _ => k.reserve(xs.iter().copied()),
        }
        true
    }
    fn idx_key(i: &T, out: &mut String) {
        out.push_str(&format!("{:?}", i.to_v()));
    }
    fn model_push(_m: &mut (), v: &T::V) -> Option<T> {
        Some(T::from_v(v))
    }
    fn used_bounds(_vs: &[&T::V]) -> (usize, usize) {
        (0, 0)
    }
    fn stores_nothing(_prev: Option<&T::V>, _v: &T::V) -> Option<bool> {
        Some(true)
    }
    fn classes(v: &T::V, out: &mut Vec<&'static str>) {
        T::classes(v, out)
    }
    fn payload(_v: &T::V) -> usize {
        std::mem::size_of::<T>()
    }
}

// ---------------------------------------------------------------------------------------------
// Strings
// ---------------------------------------------------------------------------------------------

const SCALARS_1: &[char] = &['a', 'b', 'z', '0', ' ', '\u{7f}', '\0', '\n'];
const SCALARS_2: &[char] = &['é', 'ß', 'ü', '\u{80}', '\u{7ff}', '\u{301}', '\u{308}'];
const SCALARS_3: &[char] = &['日', '本', '€', '\u{800}', '\u{ffff}', '\u{200d}', '\u{fe0f}'];
const SCALARS_4: &[char] = &['😀', '𝄞', '\u{10000}', '\u{10ffff}', '👍', '🏽'];

pub fn gen_char(t: &mut Tape, _p: &Gp) -> char {
    match t.below(8) {
        0 | 1 | 2 => SCALARS_1[t.below(SCALARS_1.len())],
        3 | 4 => SCALARS_2[t.below(SCALARS_2.len())],
        5 => SCALARS_3[t.below(SCALARS_3.len())],
        6 => SCALARS_4[t.below(SCALARS_4.len())],
        _ => loop {
            let x = t.u32() % 0x110000;
            if let Some(c) = char::from_u32(x) {
                break c;
            }
            if t.exhausted() {
                break 'a';
            }
        },
    }
}

/// Lengths around representation boundaries (u7/u8/u12/u16 and just below / above).
pub const BOUNDARY_LENS: &[usize] = &[127, 128, 129, 255, 256, 257, 1000, 4095, 4096, 4097, 65535, 65536, 65537];

const SMALL_STRINGS: &[&str] = &["", "a", "é", "ab", "日本", "a\u{301}", "😀"];

pub fn gen_string(t: &mut Tape, p: &Gp) -> String {
    if p.small {
        return SMALL_STRINGS[t.below(SMALL_STRINGS.len().min(4))].to_string();
    }
    if t.chance(24) {
        return SMALL_STRINGS[t.below(SMALL_STRINGS.len())].to_string();
    }
    if p.mega && p.depth == 0 && !t.chance(40) {
        let unit = ["a", "é", "日"][t.below(3)];
        return unit.repeat((65536 + t.below(3000)) / unit.len());
    }
    if p.depth == 0 && !light() && t.chance(6) {
        // size boundaries: byte lengths around 2^7, 2^8, 2^12, 2^16 (a repeated 1..4-byte unit,
        // so the whole string costs three tape bytes)
        let unit = ["a", "é", "日", "😀", "ab"][t.below(5)];
        let target = BOUNDARY_LENS[t.below(BOUNDARY_LENS.len())];
        let reps = target / unit.len();
        let mut s = unit.repeat(reps);
        if t.bool() {
            s.push('z');
        }
        return s;
    }
    let (small, big) = p.max_len();
    let n = t.len(small + 2, if p.big { 2048 } else { big * 2 });
    let mut s = String::new();
    for _ in 0..n {
        s.push(gen_char(t, p));
    }
    s
}

pub fn string_classes(s: &str, out: &mut Vec<&'static str>) {
    if s.is_empty() {
        out.push("empty-string");
    }
    let mut w = [false; 5];
    for c in s.chars() {
        w[c.len_utf8()] = true;
    }
    if w[2] {
        out.push("utf8-2byte");
    }
    if w[3] {
        out.push("utf8-3byte");
    }
    if w[4] {
        out.push("utf8-4byte");
    }
    if s.len() > 64 {
        out.push("long-string");
    }
}

/// `StringRegion<BS::R>` over any byte-slice region spec.
pub struct Str<BS>(PhantomData<BS>);

impl<BS> Spec for Str<BS>
where
    BS: Spec<V = Vec<u8>>,
    for<'a> BS::R: Region<ReadItem<'a> = &'a [u8], Owned = Vec<u8>>
        + Push<&'a [u8]>
        + ReserveItemsBytes
        + 'a,
{
    type R = StringRegion<BS::R>;
    type V = String;
    type M = BS::M;
    const HEAP: bool = BS::HEAP;
    const RESERVE_REGIONS: bool = BS::RESERVE_REGIONS;
    const CODED: bool = BS::CODED;
    const STRINGY: bool = true;
    const COLLAPSING: bool = BS::COLLAPSING;
    const PLAIN_VEC: bool = BS::PLAIN_VEC;
    fn name() -> String {
        if BS::name() == "Owned<u8>" {
            "Str".to_string()
        } else {
            format!("Str<{}>", BS::name())
        }
    }
    fn gen(t: &mut Tape, p: &Gp) -> String {
        gen_string(t, p)
    }
    fn shrink(v: &String) -> Vec<String> {
        if v.is_empty() {
            return vec![];
        }
        let mut out = vec![String::new()];
        let cs: Vec<char> = v.chars().collect();
        if cs.len() > 1 {
            out.push(cs[..cs.len() / 2].iter().collect());
            out.push(cs[1..].iter().collect());
        }
        out
    }
    fn owned(v: &String) -> String {
        v.clone()
    }
    fn unowned(o: &String) -> String {
        o.clone()
    }
    fn check<'a>(item: &'a str, v: &String, cx: &mut Cx) -> Result<(), String> {
        cx.strs += 1;
        if v.len() != v.chars().count() {
            cx.str_multibyte += 1;
        }
        if let Err(e) = std::str::from_utf8(item.as_bytes()) {
            return Err(format!(
                "&str read item is not valid UTF-8 ({e}); bytes {:?}, pushed {:?}",
                item.as_bytes(),
                v
            ));
        }
        if item.as_bytes() != v.as_bytes() {
            return Err(format!(
                "string read {:?} != pushed {:?}",
                String::from_utf8_lossy(item.as_bytes()),
                v
            ));
        }
        if item.len() != v.len() || item.is_empty() != v.is_empty() {
            return Err("string len/is_empty disagree".into());
        }
        let o: String = IntoOwned::into_owned(item);
        if o != *v {
            return Err(format!("string into_owned {:?} != pushed {:?}", o, v));
        }
        Ok(())
    }
    fn push_via<K: Sink<Self::R>>(k: &mut K, v: &String, f: &mut Forms) -> K::Out {
        match f.pick("Str", &["&String", "String", "&str", "&&str", "read(region)"]) {
            0 => k.put(v),
            1 => k.put(v.clone()),
            2 => k.put(v.as_str()),
            3 => k.put(&v.as_str()),
            _ => {
                let mut tmp = StringRegion::<OwnedRegion<u8>>::default();
                let i = tmp.push(v.as_str());
                k.put(tmp.index(i))
            }
        }
    }
    fn push_read<'a, K: Sink<Self::R>>(k: &mut K, item: RI<'a, Self>) -> K::Out {
        k.put(item)
    }
    fn push_owned_ref<'a, K: Sink<Self::R>>(k: &mut K, o: &'a String, which: usize) -> K::Out {
        match which % 3 {
            0 => k.put(o.as_str()),
            1 => k.put(o),
            _ => k.put(&o.as_str()),
        }
    }
    fn push_all_via<K: BatchSink<Self::R>>(k: &mut K, vs: &[String], f: &mut Forms) {
        match f.pick("Str(batch)", &["&String", "String", "&str"]) {
            0 => k.put_all(vs.iter()),
            1 => k.put_all(vs.to_vec().into_iter()),
            _ => k.put_all(vs.iter().map(|s| s.as_str())),
        }
    }
    fn reserve_items<K: RSink<Self::R>>(k: &mut K, vs: &[String], f: &mut Forms) -> bool {
        if !<BS::R as ReserveItemsBytes>::HAS {
            return false;
        }
        let strs: Vec<&str> = vs.iter().map(|s| s.as_str()).collect();
        let which = f.pick("Str(reserve)", &["&String", "&str", "&&str"]);
        <BS::R as ReserveItemsBytes>::reserve_str(k, vs, &strs, which);
        true
    }
    fn idx_key(i: &Idx<Self>, out: &mut String) {
        BS::idx_key(i, out)
    }
    fn model_push(m: &mut BS::M, v: &String) -> Option<Idx<Self>> {
        BS::model_push(m, &v.as_bytes().to_vec())
    }
    fn model_merged() -> BS::M {
        BS::model_merged()
    }
    fn used_bounds(vs: &[&String]) -> (usize, usize) {
        let bs: Vec<Vec<u8>> = vs.iter().map(|s| s.as_bytes().to_vec()).collect();
        let refs: Vec<&Vec<u8>> = bs.iter().collect();
        BS::used_bounds(&refs)
    }
    fn accepts(trained: &[&String], v: &String) -> bool {
        let bs: Vec<Vec<u8>> = trained.iter().map(|s| s.as_bytes().to_vec()).collect();
        let refs: Vec<&Vec<u8>> = bs.iter().collect();
        BS::accepts(&refs, &v.as_bytes().to_vec())
    }
    fn cleared_used_max(_ever: &[&String]) -> usize {
        BS::cleared_used_max(&[])
    }
    fn stores_nothing(prev: Option<&String>, v: &String) -> Option<bool> {
        let p = prev.map(|s| s.as_bytes().to_vec());
        BS::stores_nothing(p.as_ref(), &v.as_bytes().to_vec())
    }
    fn classes(v: &String, out: &mut Vec<&'static str>) {
        string_classes(v, out)
    }
    fn payload(v: &String) -> usize {
        v.len()
    }
}

/// How (and whether) a string region over this byte region reserves items. Implemented for the
/// byte regions the catalogue uses; needed because `ReserveItems` bounds cannot be optional.
pub trait ReserveItemsBytes: Sized {
    const HAS: bool;
    fn reserve_str<K: RSink<StringRegion<Self>>>(
        r: &mut K,
        strings: &[String],
        strs: &[&str],
        which: usize,
    ) where
        StringRegion<Self>: Region;
}
impl ReserveItemsBytes for OwnedRegion<u8> {
    const HAS: bool = true;
    fn reserve_str<K: RSink<StringRegion<Self>>>(
        r: &mut K,
        strings: &[String],
        strs: &[&str],
        which: usize,
    ) {
        match which {
            0 => r.reserve(strings.iter()),
            1 => r.reserve(strs.iter().copied()),
            _ => r.reserve(strs.iter()),
        }
    }
}
impl<O: flatcontainer::impls::index::IndexContainer<usize> + 'static> ReserveItemsBytes
    for flatcontainer::impls::deduplicate::ConsecutiveIndexPairs<OwnedRegion<u8>, O>
{
    const HAS: bool = true;
    fn reserve_str<K: RSink<StringRegion<Self>>>(
        r: &mut K,
        strings: &[String],
        strs: &[&str],
        which: usize,
    ) {
        match which {
            0 => r.reserve(strings.iter()),
            1 => r.reserve(strs.iter().copied()),
            _ => r.reserve(strs.iter()),
        }
    }
}
impl<C: Codec + 'static> ReserveItemsBytes for CodecRegion<C> {
    const HAS: bool = false;
    fn reserve_str<K: RSink<StringRegion<Self>>>(_: &mut K, _: &[String], _: &[&str], _: usize) {}
}
impl ReserveItemsBytes for flatcontainer::impls::deduplicate::CollapseSequence<OwnedRegion<u8>> {
    const HAS: bool = false;
    fn reserve_str<K: RSink<StringRegion<Self>>>(_: &mut K, _: &[String], _: &[&str], _: usize) {}
}

// ---------------------------------------------------------------------------------------------
// Owned slices
// ---------------------------------------------------------------------------------------------

/// Element types of `OwnedRegion<T>` / `Vec<T>`-as-region.
pub trait Elem: Clone + Debug + Eq + Hash + Serialize + DeserializeOwned + Send + Sync + 'static {
    const NAME: &'static str;
    /// Plain data (no heap of its own).
    const PLAIN: bool;
    fn gen(t: &mut Tape, p: &Gp) -> Self;
    fn heap(&self) -> usize {
        0
    }
    /// Push `v` as a wrapped iterator over a slice read from a slice region of mirrors
    /// (element types with a mirror region only). `which`: 0 the read slice itself (region
    /// backed, not the first item), 1 its iterator, 2 the iterator of a vector-backed read slice.
    fn put_iter_read<K: Sink<OwnedRegion<Self>>>(_k: &mut K, _v: &[Self], _which: usize) -> Option<K::Out> {
        None
    }
    /// Announce `vs` as wrapped read-slice iterators.
    fn reserve_iter_read<K: RSink<OwnedRegion<Self>>>(_r: &mut K, _vs: &[Vec<Self>]) -> bool {
        false
    }
}
macro_rules! elem_iter_read {
    ($t:ty) => {
        fn put_iter_read<K: Sink<OwnedRegion<$t>>>(k: &mut K, v: &[$t], which: usize) -> Option<K::Out> {
            use flatcontainer::impls::slice::ReadSlice;
            let mut tmp = flatcontainer::SliceRegion::<MirrorRegion<$t>>::default();
            let _pad = tmp.push(&[<$t>::default(); 3][..]);
            let _pad = tmp.push(v);
            let i = tmp.push(v);
            let rs = tmp.index(i);
            Some(match which {
                0 => k.put(PushIter(rs)),
                1 => k.put(PushIter(rs.iter())),
                _ => {
                    let o = v.to_vec();
                    let b: ReadSlice<'_, MirrorRegion<$t>> = IntoOwned::borrow_as(&o);
                    k.put(PushIter(b.iter()))
                }
            })
        }
        fn reserve_iter_read<K: RSink<OwnedRegion<$t>>>(r: &mut K, vs: &[Vec<$t>]) -> bool {
            let mut tmp = flatcontainer::SliceRegion::<MirrorRegion<$t>>::default();
            let _pad = tmp.push(&[<$t>::default(); 3][..]);
            let idx: Vec<_> = vs.iter().map(|v| tmp.push(v.as_slice())).collect();
            let tmp = &tmp;
            r.reserve(idx.iter().map(move |i| PushIter(tmp.index(*i).iter())));
            true
        }
    };
}
impl Elem for u8 {
    elem_iter_read!(u8);
    const NAME: &'static str = "u8";
    const PLAIN: bool = true;
    fn gen(t: &mut Tape, p: &Gp) -> u8 {
        if p.small {
            t.below(3) as u8
        } else {
            t.u8()
        }
    }
}
impl Elem for u64 {
    elem_iter_read!(u64);
    const NAME: &'static str = "u64";
    const PLAIN: bool = true;
    fn gen(t: &mut Tape, p: &Gp) -> u64 {
        <u64 as Prim>::gen(t, p)
    }
}
impl Elem for (u8, u16) {
    const NAME: &'static str = "(u8,u16)";
    const PLAIN: bool = true;
    fn gen(t: &mut Tape, p: &Gp) -> (u8, u16) {
        (<u8 as Elem>::gen(t, p), <u16 as Prim>::gen(t, p))
    }
}
impl Elem for String {
    const NAME: &'static str = "String";
    const PLAIN: bool = false;
    fn gen(t: &mut Tape, p: &Gp) -> String {
        gen_string(t, &p.deeper())
    }
    fn heap(&self) -> usize {
        self.len()
    }
}

pub fn gen_vec<T>(t: &mut Tape, p: &Gp, huge_ok: bool, mut f: impl FnMut(&mut Tape, &Gp) -> T) -> Vec<T> {
    let (small, big) = p.max_len();
    if !p.small && p.depth == 0 && !light() && (t.chance(4) || p.mega) {
        // element-count boundaries: 255/256/257/1000 tiny elements (mega: 70 000)
        let n = if p.mega {
            70_000 + t.below(1000)
        } else if huge_ok && t.chance(24) {
            // rarely: around 2^16 elements (not for the per-push-expensive coded regions)
            [65_535usize, 65_536, 65_537][t.below(3)]
        } else {
            [255usize, 256, 257, 1000][t.below(4)]
        };
        let q = Gp { small: true, depth: p.depth + 2, mega: false, ..p.clone() };
        // every element is generated from a two-byte tape derived from its position (a pure
        // function of the case; keeps the real tape short)
        let mut out = Vec::with_capacity(n);
        let salt = t.u8();
        for i in 0..n {
            let b = [((i % 3) as u8).wrapping_mul(85).wrapping_add(salt), ((i % 7) as u8).wrapping_mul(36)];
            out.push(f(&mut Tape::new(&b), &q));
        }
        return out;
    }
    let n = if p.small { t.below(4) } else { t.len(small, big) };
    let q = p.deeper();
    (0..n).map(|_| f(t, &q)).collect()
}

pub fn shrink_vec<T: Clone>(v: &[T]) -> Vec<Vec<T>> {
    let mut out = Vec::new();
    if v.is_empty() {
        return out;
    }
    out.push(Vec::new());
    if v.len() > 1 {
        out.push(v[..v.len() / 2].to_vec());
        out.push(v[v.len() / 2..].to_vec());
        out.push(v[1..].to_vec());
        out.push(v[..v.len() - 1].to_vec());
    }
    out
}

pub struct Owned<T>(PhantomData<T>);

/// Model of `(start, end)` offsets into one growing vector.
#[derive(Default, Clone)]
pub struct OffsetM {
    pub off: usize,
    pub unpredictable: bool,
}

impl<T: Elem> Spec for Owned<T> {
    type R = OwnedRegion<T>;
    type V = Vec<T>;
    type M = OffsetM;
    const PLAIN_VEC: bool = T::PLAIN;
    fn name() -> String {
        format!("Owned<{}>", T::NAME)
    }
    fn gen(t: &mut Tape, p: &Gp) -> Vec<T> {
        if T::NAME == "u8" && !p.small && t.chance(40) {
            // byte strings that look like text
            return gen_string(t, p).into_bytes().into_iter().map(|b| byte_as::<T>(b)).collect();
        }
        gen_vec(t, p, true, T::gen)
    }
    fn shrink(v: &Vec<T>) -> Vec<Vec<T>> {
        shrink_vec(v)
    }
    fn owned(v: &Vec<T>) -> Vec<T> {
        v.clone()
    }
    fn unowned(o: &Vec<T>) -> Vec<T> {
        o.clone()
    }
    fn check<'a>(item: &'a [T], v: &Vec<T>, _cx: &mut Cx) -> Result<(), String> {
        if item != v.as_slice() {
            return Err(format!("owned slice read {:?} != pushed {:?}", item, v));
        }
        if item.len() != v.len() || item.is_empty() != v.is_empty() {
            return Err("owned slice len/is_empty disagree".into());
        }
        let o: Vec<T> = IntoOwned::into_owned(item);
        if o != *v {
            return Err(format!("owned slice into_owned {:?} != pushed {:?}", o, v));
        }
        Ok(())
    }
    fn push_via<K: Sink<Self::R>>(k: &mut K, v: &Vec<T>, f: &mut Forms) -> K::Out {
        const NAMES: &[&str] = &[
            "&Vec<T>", "Vec<T>", "&[T]", "&&[T]", "[T;N]", "&[T;N]", "&&[T;N]", "PushIter<Vec>",
            "PushIter<IntoIter>", "read(region)", "Vec<T>(spare capacity)", "PushIter<ReadSlice(region)>",
            "PushIter<ReadSliceIter(region)>", "PushIter<ReadSliceIter(borrowed)>",
        ];
        let pick = f.pick("Owned", NAMES);
        if pick >= 11 {
            if let Some(out) = T::put_iter_read(k, v, pick - 11) {
                return out;
            }
        }
        match pick {
            10 => {
                let mut w: Vec<T> = Vec::with_capacity(v.len() * 2 + 100);
                w.extend(v.iter().cloned());
                k.put(w)
            }
            0 => k.put(v),
            1 => k.put(v.clone()),
            2 => k.put(v.as_slice()),
            3 => k.put(&v.as_slice()),
            4 => arr_dispatch!(v.clone(), a => k.put(a), else => k.put(a)),
            5 => arr_dispatch!(v.clone(), a => k.put(&a), else => k.put(&a)),
            6 => arr_dispatch!(v.clone(), a => k.put(&&a), else => k.put(&a)),
            7 => k.put(PushIter(v.clone())),
            8 => k.put(PushIter(v.clone().into_iter())),
            9 | _ => {
                let mut tmp = OwnedRegion::<T>::default();
                let _pad = tmp.push(v.as_slice());
                let i = tmp.push(v.as_slice());
                k.put(tmp.index(i))
            }
        }
    }
    fn push_read<'a, K: Sink<Self::R>>(k: &mut K, item: RI<'a, Self>) -> K::Out {
        k.put(item)
    }
    fn push_owned_ref<'a, K: Sink<Self::R>>(k: &mut K, o: &'a Vec<T>, which: usize) -> K::Out {
        match which % 3 {
            0 => k.put(o.as_slice()),
            1 => k.put(o),
            _ => k.put(&o.as_slice()),
        }
    }
    fn push_all_via<K: BatchSink<Self::R>>(k: &mut K, vs: &[Vec<T>], f: &mut Forms) {
        match f.pick("Owned(batch)", &["&Vec<T>", "Vec<T>", "&[T]"]) {
            0 => k.put_all(vs.iter()),
            1 => k.put_all(vs.to_vec().into_iter()),
            _ => k.put_all(vs.iter().map(|v| v.as_slice())),
        }
    }
    fn reserve_items<K: RSink<Self::R>>(r: &mut K, vs: &[Vec<T>], f: &mut Forms) -> bool {
        let pick = f.pick("Owned(reserve)", &["&Vec<T>", "&[T]", "&[T;N]", "PushIter", "PushIter<ReadSliceIter>"]);
        if pick == 4 && T::reserve_iter_read(r, vs) {
            return true;
        }
        match pick {
            0 => r.reserve(vs.iter()),
            1 => r.reserve(vs.iter().map(|v| v.as_slice())),
            2 => {
                // homogeneous arrays only when every announced item has the same small length
                let n = vs.first().map(|v| v.len()).unwrap_or(0);
                if n <= 2 && vs.iter().all(|v| v.len() == n) {
                    match n {
                        0 => {
                            let a: Vec<[T; 0]> = vs.iter().map(|_| []).collect();
                            r.reserve(a.iter())
                        }
                        1 => {
                            let a: Vec<[T; 1]> = vs.iter().map(|v| [v[0].clone()]).collect();
                            r.reserve(a.iter())
                        }
                        _ => {
                            let a: Vec<[T; 2]> =
                                vs.iter().map(|v| [v[0].clone(), v[1].clone()]).collect();
                            r.reserve(a.iter())
                        }
                    }
                } else {
                    r.reserve(vs.iter())
                }
            }
            _ => r.reserve(vs.iter().map(|v| PushIter(v.clone()))),
        }
        true
    }
    fn idx_key(i: &(usize, usize), out: &mut String) {
        out.push_str(&format!("({},{})", i.0, i.1));
    }
    fn model_push(m: &mut OffsetM, v: &Vec<T>) -> Option<(usize, usize)> {
        let s = m.off;
        m.off += v.len();
        Some((s, m.off))
    }
    fn used_bounds(vs: &[&Vec<T>]) -> (usize, usize) {
        let b: usize = vs.iter().map(|v| v.len()).sum::<usize>() * std::mem::size_of::<T>();
        (b, b)
    }
    fn classes(v: &Vec<T>, out: &mut Vec<&'static str>) {
        if v.is_empty() {
            out.push("empty-slice");
        }
        if v.len() > 32 {
            out.push("long-slice");
        }
    }
    fn payload(v: &Vec<T>) -> usize {
        v.len() * std::mem::size_of::<T>() + v.iter().map(|x| x.heap()).sum::<usize>()
    }
}

fn byte_as<T: Elem>(b: u8) -> T {
    // only called with T = u8 (checked by name); round-trip through JSON keeps this generic
    serde_json::from_value(serde_json::Value::from(b)).expect("byte_as only for u8")
}

/// `OwnedRegion<()>`: zero-sized elements; the model value is the element count, which may
/// exceed `u32::MAX` at no cost.
pub struct OwnedZst;

fn zst_vec(n: u64) -> Vec<()> {
    let mut v: Vec<()> = Vec::new();
    // Safety: `()` is zero-sized, a Vec<()> has capacity usize::MAX and no storage.
    unsafe { v.set_len(n as usize) };
    v
}

impl Spec for OwnedZst {
    type R = OwnedRegion<()>;
    type V = u64;
    type M = OffsetM;
    // a JSON rendering of 2^33 unit values is not an option
    const JSON_SAFE: bool = false;
    fn name() -> String {
        "Owned<()>".to_string()
    }
    fn gen(t: &mut Tape, p: &Gp) -> u64 {
        if p.small {
            // the small domain keeps one length at the u32 boundary: offsets of collapsing /
            // pair-indexed regions cross it within a few pushes
            return [0u64, 1, 1 << 32, 2][t.below(4)];
        }
        match t.below(10) {
            0 => 0,
            1 => 1,
            2 => 1 << 31,
            3 => (1 << 32) - 1,
            4 => 1 << 32,
            5 => (1 << 33) + 5,
            6 => 1 << 40,
            _ => t.u8() as u64,
        }
    }
    fn shrink(v: &u64) -> Vec<u64> {
        if *v > 0 {
            vec![0, v / 2]
        } else {
            vec![]
        }
    }
    fn owned(v: &u64) -> Vec<()> {
        zst_vec(*v)
    }
    fn unowned(o: &Vec<()>) -> u64 {
        o.len() as u64
    }
    fn check<'a>(item: &'a [()], v: &u64, _cx: &mut Cx) -> Result<(), String> {
        if item.len() as u64 != *v {
            return Err(format!("zst slice len {} != pushed {}", item.len(), v));
        }
        if item.is_empty() != (*v == 0) {
            return Err("zst slice is_empty disagrees".into());
        }
        let o: Vec<()> = IntoOwned::into_owned(item);
        if o.len() as u64 != *v {
            return Err("zst slice into_owned len differs".into());
        }
        Ok(())
    }
    fn push_via<K: Sink<Self::R>>(k: &mut K, v: &u64, f: &mut Forms) -> K::Out {
        let o = zst_vec(*v);
        match f.pick("Owned<()>", &["&Vec<T>", "Vec<T>", "&[T]", "&&[T]", "read(region)"]) {
            0 => k.put(&o),
            1 => k.put(o),
            2 => k.put(o.as_slice()),
            3 => k.put(&o.as_slice()),
            _ => {
                let mut tmp = OwnedRegion::<()>::default();
                let i = tmp.push(o.as_slice());
                k.put(tmp.index(i))
            }
        }
    }
    fn push_read<'a, K: Sink<Self::R>>(k: &mut K, item: RI<'a, Self>) -> K::Out {
        k.put(item)
    }
    fn push_all_via<K: BatchSink<Self::R>>(k: &mut K, vs: &[u64], f: &mut Forms) {
        let os: Vec<Vec<()>> = vs.iter().map(|v| zst_vec(*v)).collect();
        match f.pick("Owned<()>(batch)", &["&Vec<T>", "Vec<T>"]) {
            0 => k.put_all(os.iter()),
            _ => k.put_all(os.into_iter()),
        }
    }
    fn reserve_items<K: RSink<Self::R>>(r: &mut K, vs: &[u64], _f: &mut Forms) -> bool {
        // reserving zero-sized elements never allocates; the sum must not overflow usize
        let total: u128 = vs.iter().map(|v| *v as u128).sum();
        if total >= (1u128 << 62) {
            return true;
        }
        let os: Vec<Vec<()>> = vs.iter().map(|v| zst_vec(*v)).collect();
        r.reserve(os.iter());
        true
    }
    fn idx_key(i: &(usize, usize), out: &mut String) {
        out.push_str(&format!("({},{})", i.0, i.1));
    }
    fn model_push(m: &mut OffsetM, v: &u64) -> Option<(usize, usize)> {
        let s = m.off;
        m.off += *v as usize;
        Some((s, m.off))
    }
    fn admissible(m: &OffsetM, v: &u64) -> bool {
        // total element count must stay inside usize (Vec<()> panics with capacity overflow
        // otherwise, which is not a defect of the crate)
        // (also keeps merge/reserve sums over up to three such regions inside usize)
        (m.off as u128) + (*v as u128) <= (1u128 << 62) + (1u128 << 41)
    }
    fn used_bounds(_vs: &[&u64]) -> (usize, usize) {
        (0, 0)
    }
    fn classes(v: &u64, out: &mut Vec<&'static str>) {
        out.push("zst");
        if *v >= 1 << 62 {
            out.push("zst-len-2^62");
        }
        if *v > u32::MAX as u64 {
            out.push("zst-len-above-u32");
        }
    }
    fn payload(_v: &u64) -> usize {
        0
    }
}

// ---------------------------------------------------------------------------------------------
// Vec<T> as a region
// ---------------------------------------------------------------------------------------------

pub struct VecR<T>(PhantomData<T>);

impl<T: Elem> Spec for VecR<T> {
    type R = Vec<T>;
    type V = T;
    type M = usize;
    const PLAIN_VEC: bool = T::PLAIN;
    fn name() -> String {
        format!("VecRegion<{}>", T::NAME)
    }
    fn gen(t: &mut Tape, p: &Gp) -> T {
        T::gen(t, p)
    }
    fn owned(v: &T) -> T {
        v.clone()
    }
    fn unowned(o: &T) -> T {
        o.clone()
    }
    fn check<'a>(item: &'a T, v: &T, _cx: &mut Cx) -> Result<(), String> {
        if item != v {
            return Err(format!("vec region read {:?} != pushed {:?}", item, v));
        }
        let o: T = IntoOwned::into_owned(item);
        if o != *v {
            return Err("vec region into_owned differs".into());
        }
        Ok(())
    }
    fn push_via<K: Sink<Self::R>>(k: &mut K, v: &T, f: &mut Forms) -> K::Out {
        match f.pick("VecRegion", &["&T", "T", "&&T"]) {
            0 => k.put(v),
            1 => k.put(v.clone()),
            _ => k.put(&v),
        }
    }
    fn push_read<'a, K: Sink<Self::R>>(k: &mut K, item: RI<'a, Self>) -> K::Out {
        k.put(item)
    }
    fn push_all_via<K: BatchSink<Self::R>>(k: &mut K, vs: &[T], f: &mut Forms) {
        match f.pick("VecRegion(batch)", &["&T", "T"]) {
            0 => k.put_all(vs.iter()),
            _ => k.put_all(vs.to_vec().into_iter()),
        }
    }
    fn reserve_items<K: RSink<Self::R>>(r: &mut K, vs: &[T], f: &mut Forms) -> bool {
        match f.pick("VecRegion(reserve)", &["&T", "T"]) {
            0 => r.reserve(vs.iter()),
            _ => r.reserve(vs.to_vec().into_iter()),
        }
        true
    }
    fn idx_key(i: &usize, out: &mut String) {
        out.push_str(&i.to_string());
    }
    fn model_push(m: &mut usize, _v: &T) -> Option<usize> {
        let i = *m;
        *m += 1;
        Some(i)
    }
    fn used_bounds(vs: &[&T]) -> (usize, usize) {
        let b = vs.len() * std::mem::size_of::<T>();
        (b, b)
    }
    fn payload(v: &T) -> usize {
        std::mem::size_of::<T>() + v.heap()
    }
}

// ---------------------------------------------------------------------------------------------
// Dictionary codec region
// ---------------------------------------------------------------------------------------------

pub struct CodecDict;

pub fn gen_bytes_pool(t: &mut Tape, p: &Gp) -> Vec<u8> {
    const POOL: &[&[u8]] = &[b"abc", b"abcdef", b"defghi", b"a", b"", b"\x00", b"\x01x", b"\xff\xfe"];
    if p.small || t.chance(128) {
        POOL[t.below(if p.small { 5 } else { POOL.len() })].to_vec()
    } else {
        let n = t.len(6, 20);
        t.bytes(n)
    }
}

impl Spec for CodecDict {
    type R = CodecRegion<DictionaryCodec>;
    type V = Vec<u8>;
    type M = OffsetM;
    const CODED: bool = true;
    const PLAIN_VEC: bool = false;
    fn name() -> String {
        "Codec<Dictionary>".to_string()
    }
    fn gen(t: &mut Tape, p: &Gp) -> Vec<u8> {
        gen_bytes_pool(t, p)
    }
    fn shrink(v: &Vec<u8>) -> Vec<Vec<u8>> {
        shrink_vec(v)
    }
    fn owned(v: &Vec<u8>) -> Vec<u8> {
        v.clone()
    }
    fn unowned(o: &Vec<u8>) -> Vec<u8> {
        o.clone()
    }
    fn check<'a>(item: &'a [u8], v: &Vec<u8>, _cx: &mut Cx) -> Result<(), String> {
        if item != v.as_slice() {
            return Err(format!("codec read {:?} != pushed {:?}", item, v));
        }
        let o: Vec<u8> = IntoOwned::into_owned(item);
        if o != *v {
            return Err("codec into_owned differs".into());
        }
        Ok(())
    }
    fn push_via<K: Sink<Self::R>>(k: &mut K, v: &Vec<u8>, f: &mut Forms) -> K::Out {
        match f.pick("Codec", &["&[u8]", "read(region)"]) {
            0 => k.put(v.as_slice()),
            _ => {
                let mut tmp = OwnedRegion::<u8>::default();
                let i = tmp.push(v.as_slice());
                k.put(tmp.index(i))
            }
        }
    }
    fn push_read<'a, K: Sink<Self::R>>(k: &mut K, item: RI<'a, Self>) -> K::Out {
        k.put(item)
    }
    fn push_all_via<K: BatchSink<Self::R>>(k: &mut K, vs: &[Vec<u8>], _f: &mut Forms) {
        k.put_all(vs.iter().map(|v| v.as_slice()))
    }
    fn idx_key(i: &(usize, usize), out: &mut String) {
        out.push_str(&format!("({},{})", i.0, i.1));
    }
    fn model_push(m: &mut OffsetM, v: &Vec<u8>) -> Option<(usize, usize)> {
        if m.unpredictable {
            return None;
        }
        let s = m.off;
        m.off += v.len();
        Some((s, m.off))
    }
    fn model_merged() -> OffsetM {
        OffsetM { off: 0, unpredictable: true }
    }
    fn used_bounds(vs: &[&Vec<u8>]) -> (usize, usize) {
        let lo = vs.iter().filter(|v| !v.is_empty()).count();
        let hi = vs.iter().map(|v| v.len()).sum();
        (lo, hi)
    }
    fn accepts(trained: &[&Vec<u8>], v: &Vec<u8>) -> bool {
        // sufficient: the empty string, and anything whose first byte occurred as a first byte
        // in the source statistics (it is then either a dictionary entry or an unambiguous
        // literal, because tags are only assigned to unobserved first bytes)
        v.is_empty() || trained.iter().any(|s| s.first() == v.first())
    }
    fn classes(v: &Vec<u8>, out: &mut Vec<&'static str>) {
        if v.is_empty() {
            out.push("empty-bytes");
        }
    }
    fn payload(v: &Vec<u8>) -> usize {
        v.len()
    }
}

/// A harness-local `Clone` codec (one marker byte in front of every item) that exercises
/// `CodecRegion`'s generic plumbing, including `clone`/`clone_from`.
#[derive(Default, Clone, Debug)]
pub struct PrefixCodec {
    pushes: usize,
}
impl Codec for PrefixCodec {
    fn decode<'a>(&'a self, bytes: &'a [u8]) -> &'a [u8] {
        &bytes[1..]
    }
    fn encode<R>(&mut self, bytes: &[u8], output: &mut R) -> R::Index
    where
        for<'a> R: Region + Push<&'a [u8]>,
    {
        self.pushes += 1;
        let mut buf = Vec::with_capacity(bytes.len() + 1);
        buf.push(0xA5);
        buf.extend_from_slice(bytes);
        output.push(buf.as_slice())
    }
    fn new_from<'a, I: Iterator<Item = &'a Self> + Clone>(_stats: I) -> Self {
        Self::default()
    }
    fn heap_size<F: FnMut(usize, usize)>(&self, _callback: F) {}
}

pub struct CodecPrefix;
impl Spec for CodecPrefix {
    type R = CodecRegion<PrefixCodec>;
    type V = Vec<u8>;
    type M = OffsetM;
    const PLAIN_VEC: bool = false;
    fn name() -> String {
        "Codec<Prefix>".to_string()
    }
    fn gen(t: &mut Tape, p: &Gp) -> Vec<u8> {
        gen_bytes_pool(t, p)
    }
    fn shrink(v: &Vec<u8>) -> Vec<Vec<u8>> {
        shrink_vec(v)
    }
    fn owned(v: &Vec<u8>) -> Vec<u8> {
        v.clone()
    }
    fn unowned(o: &Vec<u8>) -> Vec<u8> {
        o.clone()
    }
    fn check<'a>(item: &'a [u8], v: &Vec<u8>, cx: &mut Cx) -> Result<(), String> {
        CodecDict::check(item, v, cx)
    }
    fn push_via<K: Sink<Self::R>>(k: &mut K, v: &Vec<u8>, _f: &mut Forms) -> K::Out {
        k.put(v.as_slice())
    }
    fn push_read<'a, K: Sink<Self::R>>(k: &mut K, item: RI<'a, Self>) -> K::Out {
        k.put(item)
    }
    fn push_all_via<K: BatchSink<Self::R>>(k: &mut K, vs: &[Vec<u8>], _f: &mut Forms) {
        k.put_all(vs.iter().map(|v| v.as_slice()))
    }
    fn idx_key(i: &(usize, usize), out: &mut String) {
        out.push_str(&format!("({},{})", i.0, i.1));
    }
    fn model_push(m: &mut OffsetM, v: &Vec<u8>) -> Option<(usize, usize)> {
        let s = m.off;
        m.off += v.len() + 1;
        Some((s, m.off))
    }
    fn used_bounds(vs: &[&Vec<u8>]) -> (usize, usize) {
        let b = vs.iter().map(|v| v.len() + 1).sum();
        (b, b)
    }
    fn payload(v: &Vec<u8>) -> usize {
        v.len()
    }
}

// ---------------------------------------------------------------------------------------------
// Huffman container
// ---------------------------------------------------------------------------------------------

pub trait Sym: Ord + Clone + Copy + Debug + Hash + Serialize + DeserializeOwned + Send + Sync + 'static {
    const NAME: &'static str;
    fn from_u16(x: u16) -> Self;
}
impl Sym for u8 {
    const NAME: &'static str = "u8";
    fn from_u16(x: u16) -> u8 {
        x as u8
    }
}
impl Sym for u16 {
    const NAME: &'static str = "u16";
    fn from_u16(x: u16) -> u16 {
        x
    }
}

pub struct Huff<B>(PhantomData<B>);

/// Bounded decode of a Huffman read item: never consumes more than `limit` symbols.
pub fn huff_decode_bounded<'a, B: Sym>(
    item: &'a <HuffmanContainer<B> as Region>::ReadItem<'a>,
    limit: usize,
) -> Vec<B> {
    match item.decode() {
        Ok(it) => it.take(limit).copied().collect(),
        Err(sl) => sl.iter().take(limit).copied().collect(),
    }
}

impl<B: Sym> Spec for Huff<B> {
    type R = HuffmanContainer<B>;
    type V = Vec<B>;
    type M = OffsetM;
    const HEAP: bool = false;
    const RESERVE_REGIONS: bool = false;
    const CODED: bool = true;
    const PLAIN_VEC: bool = false;
    fn name() -> String {
        format!("Huffman<{}>", B::NAME)
    }
    fn gen(t: &mut Tape, p: &Gp) -> Vec<B> {
        let n = if p.small { t.below(4) } else if p.big { t.len(8, 300) } else { t.len(6, 40) };
        if !p.small && p.depth == 0 && t.chance(40) {
            // a long, geometrically skewed item: as training data it yields codes of 9..14 bits,
            // and (re-used after a merge) it exercises them
            let m = 150 + t.below(250);
            // expanded from two tape bytes (a pure function of the tape)
            let seed = t.u16() as u64;
            return (0..m as u64)
                .map(|i| {
                    let x = (crate::tape::splitmix64(seed * 1_000_003 + i) as u16) | 1;
                    B::from_u16((x.leading_zeros() as u16).min(15))
                })
                .collect();
        }
        if !p.small && t.chance(80) {
            // geometrically skewed symbols: trained containers get codes beyond 8 bits
            return (0..n)
                .map(|_| {
                    let x = t.u16() | 1;
                    B::from_u16((x.leading_zeros() as u16).min(15))
                })
                .collect();
        }
        let alpha = if p.small { 3 } else { [2usize, 4, 9, 40][t.below(4)] };
        (0..n).map(|_| B::from_u16(t.below(alpha) as u16)).collect()
    }
    fn shrink(v: &Vec<B>) -> Vec<Vec<B>> {
        shrink_vec(v)
    }
    fn owned(v: &Vec<B>) -> Vec<B> {
        v.clone()
    }
    fn unowned(o: &Vec<B>) -> Vec<B> {
        o.clone()
    }
    fn check<'a>(item: RI<'a, Self>, v: &Vec<B>, _cx: &mut Cx) -> Result<(), String> {
        let got = huff_decode_bounded::<B>(&item, v.len() + 1);
        if got != *v {
            return Err(format!("huffman decode {:?} != pushed {:?}", got, v));
        }
        // only after the bounded pass agreed
        let o: Vec<B> = IntoOwned::into_owned(item);
        if o != *v {
            return Err(format!("huffman into_owned {:?} != pushed {:?}", o, v));
        }
        Ok(())
    }
    fn push_via<K: Sink<Self::R>>(k: &mut K, v: &Vec<B>, f: &mut Forms) -> K::Out {
        const NAMES: &[&str] =
            &["&Vec<B>", "Vec<B>", "&[B]", "[B;N]", "&[B;N]", "Wrapped(raw region)", "Wrapped(borrowed)", "Wrapped(encoded region)"];
        match f.pick("Huffman", NAMES) {
            0 => k.put(v),
            1 => k.put(v.clone()),
            2 => k.put(v.as_slice()),
            3 => arr_dispatch!(v.clone(), a => k.put(a), else => k.put(a)),
            4 => arr_dispatch!(v.clone(), a => k.put(&a), else => k.put(&a)),
            5 => {
                let mut tmp = HuffmanContainer::<B>::default();
                let i = tmp.push(v.as_slice());
                k.put(tmp.index(i))
            }
            6 => {
                let b: RI<'_, Self> = IntoOwned::borrow_as(v);
                k.put(b)
            }
            _ => {
                // a read item of a container in its encoded representation
                let mut tmp = HuffmanContainer::<B>::default();
                let _ = tmp.push(v.as_slice());
                let _ = tmp.push(v.as_slice());
                let mut enc = HuffmanContainer::<B>::merge_regions(std::iter::once(&tmp));
                let _pad = enc.push(v.as_slice());
                let i = enc.push(v.as_slice());
                k.put(enc.index(i))
            }
        }
    }
    fn push_read<'a, K: Sink<Self::R>>(k: &mut K, item: RI<'a, Self>) -> K::Out {
        k.put(item)
    }
    fn push_all_via<K: BatchSink<Self::R>>(k: &mut K, vs: &[Vec<B>], f: &mut Forms) {
        match f.pick("Huffman(batch)", &["&Vec<B>", "Vec<B>"]) {
            0 => k.put_all(vs.iter()),
            _ => k.put_all(vs.to_vec().into_iter()),
        }
    }
    fn idx_key(i: &(usize, usize), out: &mut String) {
        out.push_str(&format!("({},{})", i.0, i.1));
    }
    fn model_push(m: &mut OffsetM, v: &Vec<B>) -> Option<(usize, usize)> {
        if m.unpredictable {
            return None;
        }
        let s = m.off;
        m.off += v.len();
        Some((s, m.off))
    }
    fn model_merged() -> OffsetM {
        OffsetM { off: 0, unpredictable: true }
    }
    fn used_bounds(_vs: &[&Vec<B>]) -> (usize, usize) {
        (0, usize::MAX)
    }
    fn accepts(trained: &[&Vec<B>], v: &Vec<B>) -> bool {
        v.iter().all(|s| trained.iter().any(|t| t.contains(s)))
    }
    fn classes(v: &Vec<B>, out: &mut Vec<&'static str>) {
        if v.is_empty() {
            out.push("empty-symbols");
        }
    }
    fn payload(v: &Vec<B>) -> usize {
        v.len() * std::mem::size_of::<B>()
    }
}
