//! The typed catalogue's core: `Spec` = one region composition together with its generator,
//! its owned reference values, its deep read oracle, its input forms and its independent models
//! (index prediction, storage bounds, acceptance).

use std::cell::RefCell;
use std::collections::BTreeMap;
use std::fmt::Debug;
use std::hash::Hash;

use flatcontainer::impls::index::{IndexContainer, IndexList, IndexOptimized};
use flatcontainer::{FlatStack, Push, Region};
use serde::de::DeserializeOwned;
use serde::Serialize;

use crate::tape::Tape;

pub type Own<S> = <<S as Spec>::R as Region>::Owned;
pub type Idx<S> = <<S as Spec>::R as Region>::Index;
pub type RI<'a, S> = <<S as Spec>::R as Region>::ReadItem<'a>;

/// Generation parameters.
#[derive(Clone, Debug)]
pub struct Gp {
    /// Small value domain with many repeats (dedup / codecs).
    pub small: bool,
    /// Allow long values.
    pub big: bool,
    /// Nesting depth (reduces sizes of nested collections).
    pub depth: u32,
    /// Very large top-level values (64 KiB strings, 70 000-element slices): megabyte batches.
    pub mega: bool,
}

impl Gp {
    pub fn normal() -> Self {
        Gp { small: false, big: false, depth: 0, mega: false }
    }
    pub fn small() -> Self {
        Gp { small: true, big: false, depth: 0, mega: false }
    }
    pub fn deeper(&self) -> Self {
        Gp { depth: self.depth + 1, ..self.clone() }
    }
    /// Typical maximum collection length at this depth.
    pub fn max_len(&self) -> (usize, usize) {
        match (self.depth, self.big) {
            (0, false) => (5, 24),
            (0, true) => (8, 300),
            (1, false) => (4, 10),
            (1, true) => (5, 40),
            (_, false) => (3, 5),
            (_, true) => (3, 8),
        }
    }
}

/// Context of a deep read check.
#[derive(Default, Debug)]
pub struct Cx {
    /// Probe out-of-bounds positions of slice-like read items (C13).
    pub oob: bool,
    /// Counters.
    pub strs: u64,
    pub str_multibyte: u64,
    pub gets: u64,
    pub oob_probes: u64,
    pub oob_with_successor: u64,
    /// Set by the caller: the item being checked has a successor in its region.
    pub has_successor: bool,
}

/// Set by the libFuzzer entry points (and by `fcverif tape`, which must decode identically):
/// the size-boundary generators (64 KiB strings, 1000-element slices) are switched off, because
/// under ASan a single history over them can exceed libFuzzer's per-input timeout.
pub static LIGHT_GENERATORS: std::sync::atomic::AtomicBool = std::sync::atomic::AtomicBool::new(false);
pub fn light() -> bool {
    LIGHT_GENERATORS.load(std::sync::atomic::Ordering::Relaxed)
}

thread_local! {
    pub static FORM_HITS: RefCell<BTreeMap<String, u64>> = RefCell::new(BTreeMap::new());
    pub static CLASS_HITS: RefCell<BTreeMap<String, u64>> = RefCell::new(BTreeMap::new());
}

pub fn class_hit(name: &str) {
    CLASS_HITS.with(|c| *c.borrow_mut().entry(name.to_string()).or_insert(0) += 1);
}
pub fn class_hit_n(name: &str, n: u64) {
    if n > 0 {
        CLASS_HITS.with(|c| *c.borrow_mut().entry(name.to_string()).or_insert(0) += n);
    }
}

/// The stream of form choices of one push.
pub struct Forms<'a> {
    bytes: &'a [u8],
    pos: usize,
    pub record: bool,
}

impl<'a> Forms<'a> {
    pub fn new(bytes: &'a [u8]) -> Self {
        Forms { bytes, pos: 0, record: true }
    }
    pub fn canonical() -> Forms<'static> {
        Forms { bytes: &[], pos: 0, record: false }
    }
    /// Choose among the named forms of `site`. Byte 0 (and an exhausted stream) selects form 0,
    /// the canonical one.
    pub fn pick(&mut self, site: &str, names: &[&str]) -> usize {
        let b = self.bytes.get(self.pos).copied().unwrap_or(0) as usize;
        self.pos += 1;
        let i = (b * names.len()) >> 8;
        if self.record {
            FORM_HITS.with(|h| {
                *h.borrow_mut().entry(format!("{}::{}", site, names[i])).or_insert(0) += 1
            });
        }
        i
    }
}

/// Something a value can be pushed into through `Push<T>`: a region (returns the index) or a
/// `FlatStack` (`copy`, returns nothing).
pub trait Sink<R: Region> {
    type Out;
    fn put<T>(&mut self, t: T) -> Self::Out
    where
        R: Push<T>;
}

pub struct RegionSink<'r, R>(pub &'r mut R);
impl<'r, R: Region> Sink<R> for RegionSink<'r, R> {
    type Out = R::Index;
    fn put<T>(&mut self, t: T) -> R::Index
    where
        R: Push<T>,
    {
        self.0.push(t)
    }
}

pub struct StackSink<'s, R: Region, IC>(pub &'s mut FlatStack<R, IC>);
impl<'s, R: Region, IC: IndexContainer<R::Index>> Sink<R> for StackSink<'s, R, IC> {
    type Out = ();
    fn put<T>(&mut self, t: T)
    where
        R: Push<T>,
    {
        self.0.copy(t)
    }
}

/// Something `ReserveItems<T>` can be called on: a region, a wrapper that forwards, a stack.
pub trait RSink<R: Region> {
    fn reserve<T, I: Iterator<Item = T> + Clone>(&mut self, it: I)
    where
        R: flatcontainer::ReserveItems<T>;
}
pub struct RegionRSink<'r, R>(pub &'r mut R);
impl<'r, R: Region> RSink<R> for RegionRSink<'r, R> {
    fn reserve<T, I: Iterator<Item = T> + Clone>(&mut self, it: I)
    where
        R: flatcontainer::ReserveItems<T>,
    {
        self.0.reserve_items(it)
    }
}
pub struct StackRSink<'s, R: Region, IC>(pub &'s mut FlatStack<R, IC>);
impl<'s, R: Region, IC: IndexContainer<R::Index>> RSink<R> for StackRSink<'s, R, IC> {
    fn reserve<T, I: Iterator<Item = T> + Clone>(&mut self, it: I)
    where
        R: flatcontainer::ReserveItems<T>,
    {
        self.0.reserve_items(it)
    }
}

/// Receives a whole batch through `Extend` / `FromIterator`.
pub trait BatchSink<R: Region> {
    fn put_all<T, I: Iterator<Item = T>>(&mut self, it: I)
    where
        R: Push<T>;
}

/// An iterator adaptor that reports a chosen (valid) lower bound in `size_hint`.
pub struct Hinted<I> {
    pub inner: I,
    pub lo: usize,
}
impl<I: Iterator> Iterator for Hinted<I> {
    type Item = I::Item;
    fn next(&mut self) -> Option<I::Item> {
        let x = self.inner.next();
        if x.is_some() {
            self.lo = self.lo.saturating_sub(1);
        } else {
            self.lo = 0;
        }
        x
    }
    fn size_hint(&self) -> (usize, Option<usize>) {
        (self.lo, None)
    }
}

/// `extend` on an existing stack. `hint` = fraction (0..=255) of the true length reported as
/// the lower size-hint bound.
pub struct ExtendSink<'s, R: Region, IC> {
    pub stack: &'s mut FlatStack<R, IC>,
    pub hint: u8,
    pub n: usize,
}
impl<'s, R: Region, IC: IndexContainer<R::Index>> BatchSink<R> for ExtendSink<'s, R, IC> {
    fn put_all<T, I: Iterator<Item = T>>(&mut self, it: I)
    where
        R: Push<T>,
    {
        let lo = (self.n * self.hint as usize) / 255;
        self.stack.extend(Hinted { inner: it, lo });
    }
}
pub struct FromIterSink<R: Region, IC> {
    pub out: Option<FlatStack<R, IC>>,
    pub hint: u8,
    pub n: usize,
}
impl<R: Region, IC: IndexContainer<R::Index>> BatchSink<R> for FromIterSink<R, IC> {
    fn put_all<T, I: Iterator<Item = T>>(&mut self, it: I)
    where
        R: Push<T>,
    {
        let lo = (self.n * self.hint as usize) / 255;
        self.out = Some(Hinted { inner: it, lo }.collect());
    }
}

/// What an index container costs and is called (C17/C18/C19 models).
pub trait IcKind<I>: IndexContainer<I> + 'static {
    const NAME: &'static str;
    /// Heap-vector backed with one entry per element (participates in C17's zero-alloc claim).
    const PLAIN_VEC: bool;
    /// Number of (used, capacity) pairs the container reports through heap_size.
    const PAIRS: usize;
    /// (lower, upper) bound on the used bytes after pushing `seq` into a default container.
    fn used_bounds(seq: &[I]) -> (usize, usize);
}

impl<I: flatcontainer::Index + 'static> IcKind<I> for Vec<I> {
    const NAME: &'static str = "Vec";
    const PLAIN_VEC: bool = true;
    const PAIRS: usize = 1;
    fn used_bounds(seq: &[I]) -> (usize, usize) {
        let b = seq.len() * std::mem::size_of::<I>();
        (b, b)
    }
}

/// The documented cost rule of the compressed index containers, computed independently in u128:
/// the longest prefix `0, s, 2s, ...` followed by repeats of its last element is free (only with
/// `stride == true`); the remainder costs 4 bytes per entry up to (excluding) the first value
/// above `u32::MAX` and 8 bytes per entry from there on.
pub fn documented_index_cost(seq: &[usize], stride: bool) -> usize {
    let p = if stride { stride_prefix_len(seq) } else { 0 };
    let rest = &seq[p..];
    let first_big = rest.iter().position(|x| *x as u128 > u32::MAX as u128).unwrap_or(rest.len());
    4 * first_big + 8 * (rest.len() - first_big)
}

/// Length of the longest prefix matching the documented stride pattern.
pub fn stride_prefix_len(seq: &[usize]) -> usize {
    if seq.is_empty() || seq[0] != 0 {
        return 0;
    }
    if seq.len() == 1 {
        return 1;
    }
    let s = seq[1] as u128;
    let mut k = 2usize; // number of accepted elements
    // striding phase
    while k < seq.len() && seq[k] as u128 == s * k as u128 {
        k += 1;
    }
    // saturated phase: repeats of the last strided element
    let last = s * (k as u128 - 1);
    while k < seq.len() && seq[k] as u128 == last {
        k += 1;
    }
    k
}

impl IcKind<usize> for IndexOptimized {
    const NAME: &'static str = "IndexOptimized";
    const PLAIN_VEC: bool = false;
    const PAIRS: usize = 2;
    fn used_bounds(seq: &[usize]) -> (usize, usize) {
        (0, documented_index_cost(seq, true))
    }
}

impl IcKind<usize> for IndexList<Vec<u32>, Vec<u64>> {
    const NAME: &'static str = "IndexList";
    const PLAIN_VEC: bool = false;
    const PAIRS: usize = 2;
    fn used_bounds(seq: &[usize]) -> (usize, usize) {
        (0, documented_index_cost(seq, false))
    }
}

/// Optional capabilities of a region type, supplied by the catalogue entry.
pub struct Caps<R> {
    pub clone: Option<fn(&R) -> R>,
    pub clone_from: Option<fn(&mut R, &R)>,
    pub to_json: Option<fn(&R) -> Result<String, String>>,
    pub from_json: Option<fn(&str) -> Result<R, String>>,
}
impl<R> Clone for Caps<R> {
    fn clone(&self) -> Self {
        *self
    }
}
impl<R> Copy for Caps<R> {}

pub fn caps_none<R>() -> Caps<R> {
    Caps { clone: None, clone_from: None, to_json: None, from_json: None }
}
pub fn caps_clone<R: Clone>() -> Caps<R> {
    Caps {
        clone: Some(|r| r.clone()),
        clone_from: Some(|d, s| d.clone_from(s)),
        to_json: None,
        from_json: None,
    }
}
pub fn caps_full<R: Clone + Serialize + DeserializeOwned>() -> Caps<R> {
    Caps {
        clone: Some(|r| r.clone()),
        clone_from: Some(|d, s| d.clone_from(s)),
        to_json: Some(|r| serde_json::to_string(r).map_err(|e| e.to_string())),
        from_json: Some(|s| serde_json::from_str(s).map_err(|e| e.to_string())),
    }
}

pub fn heap_pairs<R: Region>(r: &R) -> Vec<(usize, usize)> {
    let mut v = Vec::new();
    r.heap_size(|u, c| v.push((u, c)));
    v
}
pub fn used_sum<R: Region>(r: &R) -> usize {
    let mut s = 0usize;
    r.heap_size(|u, _| s += u);
    s
}

/// One catalogued region composition.
pub trait Spec: Sized + 'static {
    /// The real region under test.
    type R: Region + 'static;
    /// The model value (what was logically pushed). Floats are kept as bit patterns, zero-sized
    /// slices as counts, so that `Eq`, `Hash`, `Debug` and JSON are total and cheap.
    type V: Clone + Debug + Eq + Hash + Serialize + DeserializeOwned + Send + Sync + 'static;
    /// Model state that predicts the index a default region hands out.
    type M: Default + Clone;

    /// Implements `Region::heap_size` (false: `todo!()` in the crate).
    const HEAP: bool = true;
    /// Implements `Region::reserve_regions`.
    const RESERVE_REGIONS: bool = true;
    /// Contains a dictionary / Huffman coded leaf.
    const CODED: bool = false;
    /// Contains a `String`-read leaf.
    const STRINGY: bool = false;
    /// Contains a collapsing node.
    const COLLAPSING: bool = false;
    /// Region contents are representable in JSON (no non-finite floats, no `Option<()>` indices).
    const JSON_SAFE: bool = true;
    /// All storage is plain `Vec`-backed structural storage (C17's zero-allocation scope) and the
    /// payload is plain data.
    const PLAIN_VEC: bool = true;
    /// Contains a slice / columns read item (C13 scope).
    const SLICY: bool = false;

    fn name() -> String;
    fn gen(t: &mut Tape, p: &Gp) -> Self::V;
    /// Strictly simpler candidate values for structural shrinking.
    fn shrink(_v: &Self::V) -> Vec<Self::V> {
        Vec::new()
    }
    fn owned(v: &Self::V) -> Own<Self>;
    fn unowned(o: &Own<Self>) -> Self::V;
    /// Deep read oracle: every accessor the read item offers must describe `v`.
    fn check<'a>(item: RI<'a, Self>, v: &Self::V, cx: &mut Cx) -> Result<(), String>;
    /// Push `v` through one of the forms the region accepts.
    fn push_via<K: Sink<Self::R>>(k: &mut K, v: &Self::V, f: &mut Forms) -> K::Out;
    /// Push a read item (of any region of this type, or borrowed from an owned value).
    fn push_read<'a, K: Sink<Self::R>>(k: &mut K, item: RI<'a, Self>) -> K::Out;
    /// Push a pre-built owned value by reference without creating temporaries (for
    /// allocator-call measurements). `which` selects among the reference forms the composition
    /// offers (0: the borrowed read item; others default to it).
    fn push_owned_ref<'a, K: Sink<Self::R>>(k: &mut K, o: &'a Own<Self>, _which: usize) -> K::Out {
        let b: RI<'a, Self> = flatcontainer::IntoOwned::borrow_as(o);
        Self::push_read(k, b)
    }
    /// Push a batch through `Extend`/`FromIterator` in one homogeneous form.
    fn push_all_via<K: BatchSink<Self::R>>(k: &mut K, vs: &[Self::V], f: &mut Forms);
    /// `ReserveItems` through one of the offered forms; false when the region has none.
    fn reserve_items<K: RSink<Self::R>>(_k: &mut K, _vs: &[Self::V], _f: &mut Forms) -> bool {
        false
    }
    /// The index type is `()`-like under `Option` (JSON cannot tell `Some(())` from `None`).
    const UNIT_INDEX: bool = false;
    /// Canonical textual form of an index (bitwise for floats).
    fn idx_key(i: &Idx<Self>, out: &mut String);
    /// The index a region that was `Default` (or merged) and then received the modelled pushes
    /// returns for `v`; `None` when it cannot be predicted (coded regions after a merge).
    fn model_push(m: &mut Self::M, v: &Self::V) -> Option<Idx<Self>>;
    /// Model state right after `merge_regions`.
    fn model_merged() -> Self::M {
        Self::M::default()
    }
    /// (lower, upper) bound of Σ used bytes of a default region after exactly these pushes.
    fn used_bounds(vs: &[&Self::V]) -> (usize, usize);
    /// After `merge_regions` from regions that held `trained`: is `v` inside the acceptance
    /// contract (a sufficient condition)? Non-coded regions accept everything.
    fn accepts(_trained: &[&Self::V], _v: &Self::V) -> bool {
        true
    }
    /// Whether the model can follow this push (false: offsets would leave `usize`, which the crate
    /// does not claim to handle; such pushes are skipped).
    fn admissible(_m: &Self::M, _v: &Self::V) -> bool {
        true
    }
    /// Whether pushing `v` right after `prev` must store nothing at all (whole push collapses).
    fn stores_nothing(_prev: Option<&Self::V>, _v: &Self::V) -> Option<bool> {
        None
    }
    /// Upper bound of Σ used bytes right after `clear()` of a region that ever held `ever`
    /// (retained structure that legitimately stays accounted: column headers, the initial
    /// offset of a vector-backed pair index). Pushed payload never is.
    fn cleared_used_max(_ever: &[&Self::V]) -> usize {
        0
    }
    /// Class labels for the generator-health histogram.
    fn classes(_v: &Self::V, _out: &mut Vec<&'static str>) {}
    /// Payload size in bytes (plain data carried by the value), for non-triviality rules.
    fn payload(v: &Self::V) -> usize;
}

pub fn idx_key_of<S: Spec>(i: &Idx<S>) -> String {
    let mut s = String::new();
    S::idx_key(i, &mut s);
    s
}

/// Bounded drain of an iterator: at most `limit` items (protects against endless decoders).
pub fn bounded<I: Iterator>(it: I, limit: usize) -> Vec<I::Item> {
    it.take(limit).collect()
}
