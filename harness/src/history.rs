//! The stateful, model-based history engine over regions.
//!
//! A case is a list of operations over a small universe of region slots of one composition.
//! Every slot is paired with a reference model: the values issued since its last clear together
//! with the indices `push` returned, an independent index-prediction model, the values it was
//! trained on (coded regions) and everything it ever held (for the clear rule). After every
//! operation every live index of every slot is re-read with the deep read oracle.

use std::collections::hash_map::DefaultHasher;
use std::hash::{Hash, Hasher};

use flatcontainer::{IntoOwned, Region};
use serde::de::DeserializeOwned;
use serde::{Deserialize, Serialize};

use crate::spec::*;
use crate::tape::Tape;
use crate::util::{guard, Counters};

#[derive(Clone, Debug, PartialEq, Eq, Hash, Serialize, Deserialize)]
#[serde(bound = "V: Serialize + DeserializeOwned")]
pub enum Op<V> {
    Push { slot: u8, v: V, form: Vec<u8> },
    Reserve { slot: u8, vs: Vec<V>, form: Vec<u8> },
    ReserveRegions { slot: u8, srcs: Vec<u8> },
    Clear { slot: u8 },
    Fresh { slot: u8 },
    Clone { dst: u8, src: u8 },
    CloneFrom { dst: u8, src: u8 },
    Merge { dst: u8, srcs: Vec<u8> },
    Serde { slot: u8 },
}

impl<V> Op<V> {
    pub fn kind(&self) -> &'static str {
        match self {
            Op::Push { .. } => "push",
            Op::Reserve { .. } => "reserve_items",
            Op::ReserveRegions { .. } => "reserve_regions",
            Op::Clear { .. } => "clear",
            Op::Fresh { .. } => "fresh",
            Op::Clone { .. } => "clone",
            Op::CloneFrom { .. } => "clone_from",
            Op::Merge { .. } => "merge",
            Op::Serde { .. } => "serde",
        }
    }
}

pub const OPK_PUSH: usize = 0;
pub const OPK_RESERVE: usize = 1;
pub const OPK_RESERVE_REGIONS: usize = 2;
pub const OPK_CLEAR: usize = 3;
pub const OPK_FRESH: usize = 4;
pub const OPK_CLONE: usize = 5;
pub const OPK_CLONE_FROM: usize = 6;
pub const OPK_MERGE: usize = 7;
pub const OPK_SERDE: usize = 8;

/// How the twin universe's history differs from the real one (metamorphic relation).
#[derive(Clone, Copy, Debug, PartialEq, Eq)]
pub enum Twin {
    None,
    /// every form replaced by the canonical one (C20)
    CanonicalForms,
    /// every reserve_* deleted (C10)
    DropReserves,
    /// `Clear` replaced by a fresh `Default::default()` region (C08)
    ClearToFresh,
    /// serialisation round trips deleted (C16)
    DropSerde,
    /// `clone_from` replaced by `clone` (C09)
    CloneFromToClone,
}

#[derive(Clone, Debug)]
pub struct HistCfg {
    pub max_ops: usize,
    pub nslots: usize,
    pub w: [u32; 9],
    pub gp: Gp,
    pub twin: Twin,
    /// compare Σ used bytes with the twin after every op
    pub cmp_used: bool,
    /// check storage growth rules (collapse stores nothing, used within model bounds)
    pub storage: bool,
    /// check heap_size invariants (C18)
    pub heap: bool,
    /// probe out-of-bounds accessors (C13)
    pub oob: bool,
    /// also deep-check the owned-borrowed representation of every item
    pub borrowed: bool,
    /// probability (of 256) to reuse an earlier value of the history
    pub reuse: u16,
    /// size of announced batches in Reserve
    pub reserve_batch: usize,
    /// long mode: many tiny pushes
    pub long: bool,
    /// set by run_history: out-of-contract pushes are tried (only without a twin universe)
    pub probe_refusals: bool,
}

impl HistCfg {
    pub fn base() -> Self {
        HistCfg {
            max_ops: 40,
            nslots: 3,
            w: [60, 6, 5, 6, 2, 5, 4, 6, 4],
            gp: Gp::normal(),
            twin: Twin::None,
            cmp_used: false,
            storage: false,
            heap: false,
            oob: false,
            borrowed: false,
            reuse: 64,
            reserve_batch: 4,
            long: false,
            probe_refusals: false,
        }
    }
}

/// Decode a history from the tape.
pub fn decode_history<S: Spec>(t: &mut Tape, cfg: &HistCfg) -> Vec<Op<S::V>> {
    let mut ops: Vec<Op<S::V>> = Vec::new();
    let mut pool: Vec<S::V> = Vec::new();
    let ns = cfg.nslots.max(1);
    while !t.exhausted() && ops.len() < cfg.max_ops {
        let kind = t.weighted(&cfg.w);
        let slot = t.below(ns) as u8;
        let gen_v = |t: &mut Tape, pool: &mut Vec<S::V>| -> S::V {
            if !pool.is_empty() && t.chance(cfg.reuse) {
                let i = t.below(pool.len());
                // prefer recent values: mirror the index
                pool[pool.len() - 1 - i].clone()
            } else {
                let v = S::gen(t, &cfg.gp);
                pool.push(v.clone());
                v
            }
        };
        let op = match kind {
            OPK_PUSH => {
                let v = gen_v(t, &mut pool);
                let nf = t.below(4);
                let form = if t.chance(96) { Vec::new() } else { t.bytes(nf + 1) };
                Op::Push { slot, v, form }
            }
            OPK_RESERVE => {
                let n = t.below(cfg.reserve_batch + 1);
                let vs = (0..n).map(|_| gen_v(t, &mut pool)).collect();
                let form = t.bytes(1);
                Op::Reserve { slot, vs, form }
            }
            OPK_RESERVE_REGIONS => {
                let n = t.below(4);
                let srcs = (0..n).map(|_| t.below(ns) as u8).collect();
                Op::ReserveRegions { slot, srcs }
            }
            OPK_CLEAR => Op::Clear { slot },
            OPK_FRESH => Op::Fresh { slot },
            OPK_CLONE => Op::Clone { dst: slot, src: t.below(ns) as u8 },
            OPK_CLONE_FROM => Op::CloneFrom { dst: slot, src: t.below(ns) as u8 },
            OPK_MERGE => {
                let n = t.below(4);
                let srcs = (0..n).map(|_| t.below(ns) as u8).collect();
                Op::Merge { dst: slot, srcs }
            }
            _ => Op::Serde { slot },
        };
        ops.push(op);
    }
    ops
}

pub struct Slot<S: Spec> {
    pub r: S::R,
    pub items: Vec<(Idx<S>, S::V)>,
    pub m: S::M,
    /// values the slot's statistics were built from (coded regions, after merge)
    pub trained: Option<Vec<S::V>>,
    /// `Default` followed by pushes / reserve_items only: storage is exactly modelled
    pub pure: bool,
    /// everything that ever went into this slot or into regions it was sized from (a set:
    /// self-referential merges would otherwise grow it exponentially)
    pub ever: std::collections::HashSet<S::V>,
}

impl<S: Spec> Slot<S> {
    fn fresh() -> Self {
        Slot {
            r: S::R::default(),
            items: Vec::new(),
            m: S::M::default(),
            trained: None,
            pure: true,
            ever: Default::default(),
        }
    }
}

/// What one operation made observable (compared between twin universes).
#[derive(Default, Debug, Clone, PartialEq)]
pub struct Obs {
    pub idx: Option<String>,
    pub used: Option<usize>,
    pub skipped: bool,
}

pub struct Universe<S: Spec> {
    pub slots: Vec<Slot<S>>,
    pub caps: Caps<S::R>,
    pub cfg: HistCfg,
    pub ev: Counters,
    pub cx: Cx,
    pub label: &'static str,
}

fn fail<T>(label: &str, msg: String) -> Result<T, String> {
    if label.is_empty() {
        Err(msg)
    } else {
        Err(format!("[{label} universe] {msg}"))
    }
}

impl<S: Spec> Universe<S> {
    pub fn new(caps: Caps<S::R>, cfg: &HistCfg, label: &'static str) -> Self {
        let mut cx = Cx::default();
        cx.oob = cfg.oob;
        Universe {
            slots: (0..cfg.nslots.max(1)).map(|_| Slot::fresh()).collect(),
            caps,
            cfg: cfg.clone(),
            ev: Counters::default(),
            cx,
            label,
        }
    }

    fn used(&self, slot: usize) -> Option<usize> {
        if S::HEAP {
            Some(used_sum(&self.slots[slot].r))
        } else {
            None
        }
    }

    /// Apply one operation; `Err` = a property violation (message).
    pub fn apply(&mut self, op: &Op<S::V>) -> Result<Obs, String> {
        let label = self.label;
        let ns = self.slots.len();
        let mut obs = Obs::default();
        match op {
            Op::Push { slot, v, form } => {
                let si = *slot as usize % ns;
                if !S::admissible(&self.slots[si].m, v) {
                    self.ev.hit("push-skipped-offsets-would-leave-usize");
                    obs.skipped = true;
                    return Ok(obs);
                }
                if let Some(tr) = &self.slots[si].trained {
                    let refs: Vec<&S::V> = tr.iter().collect();
                    if !S::accepts(&refs, v) && !self.cfg.probe_refusals {
                        // with a twin universe the outcome of an out-of-contract push (refusal
                        // or acceptance) would desynchronise the two: skip it
                        self.ev.hit("push-skipped-outside-acceptance");
                        obs.skipped = true;
                        return Ok(obs);
                    }
                    if !S::accepts(&refs, v) {
                        // outside the sufficient acceptance condition: the region may refuse
                        // (panic at push, after which it is dropped and replaced by a fresh one),
                        // but if it returns an index that index must read the pushed value
                        self.ev.hit("push-outside-acceptance-probed");
                        let mut forms = Forms::new(form);
                        let r = &mut self.slots[si].r;
                        match guard(|| S::push_via(&mut RegionSink(r), v, &mut forms)) {
                            Err(_) => {
                                self.ev.hit("refusal-at-push");
                                self.slots[si] = Slot::fresh();
                                obs.skipped = true;
                                return Ok(obs);
                            }
                            Ok(idx) => {
                                self.ev.hit("accepted-outside-sufficient-condition");
                                let _ = S::model_push(&mut self.slots[si].m, v);
                                obs.idx = Some(idx_key_of::<S>(&idx));
                                self.slots[si].items.push((idx, v.clone()));
                                self.slots[si].ever.insert(v.clone());
                                self.check_all()?;
                                obs.used = self.used(si);
                                return Ok(obs);
                            }
                        }
                    }
                }
                let heap_before = if S::HEAP { Some(heap_pairs(&self.slots[si].r)) } else { None };
                let used_before = heap_before.as_ref().map(|h| h.iter().map(|p| p.0).sum::<usize>());
                let prev = self.slots[si].items.last().map(|x| x.1.clone());
                let predicted = S::model_push(&mut self.slots[si].m, v);
                let mut forms = Forms::new(form);
                let r = &mut self.slots[si].r;
                let got = guard(|| S::push_via(&mut RegionSink(r), v, &mut forms));
                let idx = match got {
                    Ok(i) => i,
                    Err(p) => return fail(label, format!("push panicked for an accepted value {:?}: {p}", v)),
                };
                let key = idx_key_of::<S>(&idx);
                if let Some(p) = predicted {
                    let pk = idx_key_of::<S>(&p);
                    if pk != key {
                        return fail(
                            label,
                            format!(
                                "push #{} since creation/clear/merge returned index {key}, the reference model predicts {pk} (value {:?})",
                                self.slots[si].items.len(),
                                v
                            ),
                        );
                    }
                    if let Some((pi, _)) = self.slots[si].items.last() {
                        if idx_key_of::<S>(pi) == key && S::COLLAPSING {
                            self.ev.hit("dedup-hit");
                        }
                    }
                } else {
                    self.ev.hit("push-index-unpredictable(coded)");
                }
                self.slots[si].items.push((idx, v.clone()));
                self.slots[si].ever.insert(v.clone());
                if let (Some(hb), Some(ub)) = (heap_before, used_before) {
                    let ha = heap_pairs(&self.slots[si].r);
                    let ua: usize = ha.iter().map(|p| p.0).sum();
                    obs.used = Some(ua);
                    if ha.len() != hb.len() || ha.iter().zip(hb.iter()).any(|(a, b)| a.1 != b.1) {
                        self.ev.hit("capacity-change-on-push");
                    }
                    if self.cfg.heap || self.cfg.storage {
                        if ua < ub {
                            return fail(label, format!("Σused decreased on push: {ub} -> {ua}"));
                        }
                    }
                    if self.cfg.heap && !self.cfg.storage {
                        // C18 states a lower bound only (nothing omitted); what else a region may
                        // account (statistics, bookkeeping) is not restricted by it
                        let vals: Vec<&S::V> = self.slots[si].items.iter().map(|x| &x.1).collect();
                        let (lo, _) = S::used_bounds(&vals);
                        if lo > 0 {
                            self.ev.hit("lower-bound-positive");
                        }
                        if ua < lo {
                            return fail(
                                label,
                                format!("Σused = {ua} is below the payload+index lower bound {lo} of what is stored ({} items)", vals.len()),
                            );
                        }
                    }
                    if self.cfg.storage {
                        if let Some(true) = S::stores_nothing(prev.as_ref(), v) {
                            self.ev.hit("stores-nothing-expected");
                            if ua != ub {
                                return fail(
                                    label,
                                    format!(
                                        "push of {:?} right after an equal item must store nothing, but Σused grew {ub} -> {ua}",
                                        v
                                    ),
                                );
                            }
                        }
                        let vals: Vec<&S::V> = self.slots[si].items.iter().map(|x| &x.1).collect();
                        let (lo, hi) = S::used_bounds(&vals);
                        if ua < lo {
                            return fail(
                                label,
                                format!("Σused = {ua} is below the payload+index lower bound {lo} of what is stored ({} items)", vals.len()),
                            );
                        }
                        if self.slots[si].pure && ua > hi {
                            return fail(
                                label,
                                format!("Σused = {ua} exceeds the modelled upper bound {hi} for {} items pushed into a default region (something that should have been deduplicated/compressed was stored)", vals.len()),
                            );
                        }
                        if self.slots[si].pure && lo == hi {
                            self.ev.hit("used-exactly-modelled");
                        }
                    }
                }
                obs.idx = Some(key);
                self.ev.hit("op:push");
            }
            Op::Reserve { slot, vs, form } => {
                let si = *slot as usize % ns;
                let mut forms = Forms::new(form);
                let r = &mut self.slots[si].r;
                let done = guard(|| S::reserve_items(&mut RegionRSink(r), vs, &mut forms));
                match done {
                    Ok(true) => {
                        self.ev.hit("op:reserve_items");
                        if !self.slots[si].items.is_empty() {
                            self.ev.hit("reserve-on-populated");
                        }
                    }
                    Ok(false) => {
                        obs.skipped = true;
                    }
                    Err(p) => return fail(label, format!("reserve_items panicked: {p}")),
                }
                for v in vs {
                    self.slots[si].ever.insert(v.clone());
                }
            }
            Op::ReserveRegions { slot, srcs } => {
                let si = *slot as usize % ns;
                if !S::RESERVE_REGIONS {
                    obs.skipped = true;
                    return Ok(obs);
                }
                let mut dst = std::mem::take(&mut self.slots[si].r);
                let self_clone = if srcs.iter().any(|s| *s as usize % ns == si) {
                    self.caps.clone.map(|c| c(&dst))
                } else {
                    None
                };
                let mut refs: Vec<&S::R> = Vec::new();
                let mut ever_add: Vec<S::V> = Vec::new();
                for s in srcs {
                    let sj = *s as usize % ns;
                    if sj == si {
                        if let Some(c) = &self_clone {
                            refs.push(c);
                        }
                    } else {
                        refs.push(&self.slots[sj].r);
                        ever_add.extend(self.slots[sj].ever.iter().cloned());
                    }
                }
                let res = guard(|| dst.reserve_regions(refs.iter().copied()));
                drop(refs);
                self.slots[si].r = dst;
                if let Err(p) = res {
                    return fail(label, format!("reserve_regions panicked: {p}"));
                }
                self.slots[si].ever.extend(ever_add);
                self.slots[si].pure = false;
                self.ev.hit("op:reserve_regions");
                if !self.slots[si].items.is_empty() {
                    self.ev.hit("reserve-on-populated");
                }
            }
            Op::Clear { slot } => {
                let si = *slot as usize % ns;
                let before = if S::HEAP && self.cfg.heap { Some(heap_pairs(&self.slots[si].r)) } else { None };
                let had = self.slots[si].items.len();
                let r = &mut self.slots[si].r;
                if let Err(p) = guard(|| r.clear()) {
                    return fail(label, format!("clear panicked: {p}"));
                }
                if let Some(hb) = before {
                    let ha = heap_pairs(&self.slots[si].r);
                    if ha.len() < hb.len() {
                        return fail(label, format!("clear: number of reported (used,capacity) pairs shrank {} -> {}", hb.len(), ha.len()));
                    }
                    for (k, (b, a)) in hb.iter().zip(ha.iter()).enumerate() {
                        if a.1 < b.1 {
                            return fail(label, format!("clear: reported capacity #{k} shrank {} -> {}", b.1, a.1));
                        }
                    }
                    let ua: usize = ha.iter().map(|p| p.0).sum();
                    let ever: Vec<&S::V> = self.slots[si].ever.iter().collect();
                    let allowed = S::cleared_used_max(&ever);
                    if ua > allowed {
                        return fail(label, format!("clear: Σused = {ua} after clear, but only {allowed} bytes of retained structure may stay accounted (pushed payload still accounted)"));
                    }
                }
                self.slots[si].items.clear();
                self.slots[si].m = S::M::default();
                self.slots[si].trained = None;
                self.slots[si].pure = false;
                self.ev.hit("op:clear");
                if had > 0 {
                    self.ev.hit("clear-of-populated");
                }
            }
            Op::Fresh { slot } => {
                let si = *slot as usize % ns;
                self.slots[si] = Slot::fresh();
                self.ev.hit("op:fresh");
            }
            Op::Clone { dst, src } => {
                let (di, sj) = (*dst as usize % ns, *src as usize % ns);
                let Some(cl) = self.caps.clone else {
                    obs.skipped = true;
                    return Ok(obs);
                };
                if di == sj {
                    obs.skipped = true;
                    return Ok(obs);
                }
                let srcr = &self.slots[sj].r;
                let c = match guard(|| cl(srcr)) {
                    Ok(c) => c,
                    Err(p) => return fail(label, format!("clone panicked: {p}")),
                };
                let s = &self.slots[sj];
                let newslot = Slot {
                    r: c,
                    items: s.items.clone(),
                    m: s.m.clone(),
                    trained: s.trained.clone(),
                    pure: s.pure,
                    ever: s.ever.clone(),
                };
                self.slots[di] = newslot;
                self.ev.hit("op:clone");
                if !self.slots[di].items.is_empty() {
                    self.ev.hit("clone-of-populated");
                }
            }
            Op::CloneFrom { dst, src } => {
                let (di, sj) = (*dst as usize % ns, *src as usize % ns);
                let Some(cf) = self.caps.clone_from else {
                    obs.skipped = true;
                    return Ok(obs);
                };
                if di == sj {
                    obs.skipped = true;
                    return Ok(obs);
                }
                let mut d = std::mem::take(&mut self.slots[di].r);
                let dst_had = self.slots[di].items.len();
                let srcr = &self.slots[sj].r;
                let res = guard(|| cf(&mut d, srcr));
                if let Err(p) = res {
                    return fail(label, format!("clone_from panicked: {p}"));
                }
                let s = &self.slots[sj];
                let mut ever = self.slots[di].ever.clone();
                ever.extend(s.ever.iter().cloned());
                let newslot = Slot {
                    r: d,
                    items: s.items.clone(),
                    m: s.m.clone(),
                    trained: s.trained.clone(),
                    pure: s.pure && dst_had == 0 && self.slots[di].pure,
                    ever,
                };
                let src_len = s.items.len();
                self.slots[di] = newslot;
                self.ev.hit("op:clone_from");
                if dst_had > src_len {
                    self.ev.hit("clone_from-into-longer-destination");
                }
                if dst_had > 0 && dst_had < src_len {
                    self.ev.hit("clone_from-into-shorter-destination");
                }
            }
            Op::Merge { dst, srcs } => {
                let di = *dst as usize % ns;
                let refs: Vec<&S::R> = srcs.iter().map(|s| &self.slots[*s as usize % ns].r).collect();
                let merged = match guard(|| S::R::merge_regions(refs.iter().copied())) {
                    Ok(m) => m,
                    Err(p) => return fail(label, format!("merge_regions panicked: {p}")),
                };
                drop(refs);
                let mut trained: Vec<S::V> = Vec::new();
                let mut ever: std::collections::HashSet<S::V> = Default::default();
                let mut any_items = false;
                for s in srcs {
                    let sl = &self.slots[*s as usize % ns];
                    trained.extend(sl.items.iter().map(|x| x.1.clone()));
                    ever.extend(sl.ever.iter().cloned());
                    any_items |= !sl.items.is_empty();
                }
                self.slots[di] = Slot {
                    r: merged,
                    items: Vec::new(),
                    m: S::model_merged(),
                    trained: if S::CODED { Some(trained) } else { None },
                    pure: false,
                    ever,
                };
                self.ev.hit("op:merge");
                if srcs.is_empty() {
                    self.ev.hit("merge-from-no-sources");
                }
                if any_items {
                    self.ev.hit("merge-from-populated");
                }
            }
            Op::Serde { slot } => {
                let si = *slot as usize % ns;
                let (Some(tj), Some(fj)) = (self.caps.to_json, self.caps.from_json) else {
                    obs.skipped = true;
                    return Ok(obs);
                };
                if !S::JSON_SAFE {
                    obs.skipped = true;
                    return Ok(obs);
                }
                let r = &self.slots[si].r;
                let json = match guard(|| tj(r)) {
                    Ok(Ok(j)) => j,
                    Ok(Err(e)) => return fail(label, format!("serialisation failed: {e}")),
                    Err(p) => return fail(label, format!("serialisation panicked: {p}")),
                };
                let back = match guard(|| fj(&json)) {
                    Ok(Ok(b)) => b,
                    Ok(Err(e)) => return fail(label, format!("deserialisation of own output failed: {e}; json = {json}")),
                    Err(p) => return fail(label, format!("deserialisation panicked: {p}")),
                };
                self.slots[si].r = back;
                self.ev.hit("op:serde");
                if !self.slots[si].items.is_empty() {
                    self.ev.hit("serde-of-populated");
                }
            }
        }
        if obs.used.is_none() {
            // observable storage of the slot the op addressed
            let si = match op {
                Op::Push { slot, .. }
                | Op::Reserve { slot, .. }
                | Op::ReserveRegions { slot, .. }
                | Op::Clear { slot }
                | Op::Fresh { slot }
                | Op::Serde { slot } => *slot,
                Op::Clone { dst, .. } | Op::CloneFrom { dst, .. } | Op::Merge { dst, .. } => *dst,
            } as usize
                % ns;
            obs.used = self.used(si);
        }
        if self.cfg.heap && S::HEAP {
            for (k, sl) in self.slots.iter().enumerate() {
                for (j, (u, c)) in heap_pairs(&sl.r).into_iter().enumerate() {
                    if u > c {
                        return fail(label, format!("slot {k}: heap_size pair #{j} reports used {u} > capacity {c}"));
                    }
                }
            }
        }
        self.check_all()?;
        Ok(obs)
    }

    /// Re-read every live index of every slot.
    pub fn check_all(&mut self) -> Result<(), String> {
        let label = self.label;
        let borrowed = self.cfg.borrowed;
        for (k, sl) in self.slots.iter().enumerate() {
            let n = sl.items.len();
            for (j, (idx, v)) in sl.items.iter().enumerate() {
                self.cx.has_successor = j + 1 < n;
                let cx = &mut self.cx;
                let r = &sl.r;
                let res = guard(|| S::check(r.index(*idx), v, cx));
                match res {
                    Ok(Ok(())) => {}
                    Ok(Err(e)) => {
                        return fail(label, format!("slot {k}, item #{j} of {n} (index {}): {e}", idx_key_of::<S>(idx)))
                    }
                    Err(p) => {
                        return fail(label, format!("slot {k}, item #{j} of {n} (index {}): reading panicked: {p}", idx_key_of::<S>(idx)))
                    }
                }
                if borrowed {
                    let o = S::owned(v);
                    let cx = &mut self.cx;
                    cx.has_successor = false;
                    let res = guard(|| {
                        let b: RI<'_, S> = IntoOwned::borrow_as(&o);
                        S::check(b, v, cx)
                    });
                    match res {
                        Ok(Ok(())) => {}
                        Ok(Err(e)) => return fail(label, format!("owned-borrowed representation of item #{j}: {e}")),
                        Err(p) => return fail(label, format!("owned-borrowed representation of item #{j}: panicked: {p}")),
                    }
                }
            }
        }
        Ok(())
    }
}

fn transform<V: Clone>(op: &Op<V>, twin: Twin) -> Option<Op<V>> {
    match (twin, op) {
        (Twin::None, _) => None,
        (Twin::CanonicalForms, Op::Push { slot, v, .. }) => {
            Some(Op::Push { slot: *slot, v: v.clone(), form: Vec::new() })
        }
        (Twin::CanonicalForms, Op::Reserve { slot, vs, .. }) => {
            Some(Op::Reserve { slot: *slot, vs: vs.clone(), form: Vec::new() })
        }
        (Twin::DropReserves, Op::Reserve { .. }) | (Twin::DropReserves, Op::ReserveRegions { .. }) => None,
        (Twin::ClearToFresh, Op::Clear { slot }) => Some(Op::Fresh { slot: *slot }),
        (Twin::DropSerde, Op::Serde { .. }) => None,
        (Twin::CloneFromToClone, Op::CloneFrom { dst, src }) => Some(Op::Clone { dst: *dst, src: *src }),
        (_, o) => Some(o.clone()),
    }
}

/// Statistics of one executed history (for non-triviality rules and class histograms).
#[derive(Default, Debug, Clone)]
pub struct RunStats {
    pub ev: Counters,
    pub ops_applied: usize,
    pub pushes: usize,
}

/// Run a whole history (with its twin, if configured). `Err` = violation message.
pub fn run_history<S: Spec>(
    ops: &[Op<S::V>],
    caps: Caps<S::R>,
    cfg: &HistCfg,
    stats: &mut RunStats,
) -> Result<(), String> {
    let mut rcfg = cfg.clone();
    rcfg.probe_refusals = cfg.twin == Twin::None;
    let cfg = &rcfg;
    let mut real = Universe::<S>::new(caps, cfg, "");
    let mut twin = if cfg.twin != Twin::None {
        let mut tcfg = cfg.clone();
        tcfg.twin = Twin::None;
        tcfg.probe_refusals = false;
        Some(Universe::<S>::new(caps, &tcfg, "twin"))
    } else {
        None
    };
    let mut result = Ok(());
    for (k, op) in ops.iter().enumerate() {
        let o = match real.apply(op) {
            Ok(o) => o,
            Err(e) => {
                result = Err(format!("op #{k} ({}): {e}", op.kind()));
                break;
            }
        };
        stats.ops_applied += 1;
        if matches!(op, Op::Push { .. }) && !o.skipped {
            stats.pushes += 1;
        }
        if let Some(tw) = twin.as_mut() {
            let top = transform(op, cfg.twin);
            let to = match &top {
                Some(t) => match tw.apply(t) {
                    Ok(o) => Some(o),
                    Err(e) => {
                        result = Err(format!("op #{k} ({}): {e}", op.kind()));
                        break;
                    }
                },
                None => None,
            };
            if let Some(to) = to {
                if matches!(op, Op::Push { .. }) && o.idx != to.idx {
                    result = Err(format!(
                        "op #{k} (push): returned index {:?} but the twin universe ({:?}) returned {:?}",
                        o.idx, cfg.twin, to.idx
                    ));
                    break;
                }
                if cfg.cmp_used && o.used != to.used && !matches!(top, Some(Op::Fresh { .. })) {
                    result = Err(format!(
                        "op #{k} ({}): Σused = {:?} but the twin universe ({:?}) has {:?}",
                        op.kind(), o.used, cfg.twin, to.used
                    ));
                    break;
                }
            }
        }
    }
    stats.ev.merge(&real.ev);
    stats.ev.add("strs-checked", real.cx.strs);
    stats.ev.add("multibyte-strs-checked", real.cx.str_multibyte);
    stats.ev.add("positional-gets", real.cx.gets);
    stats.ev.add("oob-probes", real.cx.oob_probes);
    stats.ev.add("oob-probes-at-len-with-successor", real.cx.oob_with_successor);
    result
}

pub fn hash_ops<V: Hash>(ops: &[Op<V>]) -> u64 {
    let mut h = DefaultHasher::new();
    ops.hash(&mut h);
    h.finish()
}

/// Structural shrinking: remove operations, then simplify forms and values, to a fixpoint or
/// until the evaluation budget is spent. `fails(ops)` must be deterministic.
pub fn shrink_history<S: Spec>(
    ops: Vec<Op<S::V>>,
    mut fails: impl FnMut(&[Op<S::V>]) -> bool,
    budget: usize,
) -> Vec<Op<S::V>> {
    let mut cur = ops;
    let mut evals = 0usize;
    let mut progress = true;
    while progress && evals < budget {
        progress = false;
        // 1. delete chunks
        let mut chunk = (cur.len() / 2).max(1);
        while chunk >= 1 && evals < budget {
            let mut i = 0;
            while i < cur.len() && evals < budget {
                let end = (i + chunk).min(cur.len());
                let mut cand = cur.clone();
                cand.drain(i..end);
                evals += 1;
                if fails(&cand) {
                    cur = cand;
                    progress = true;
                } else {
                    i += chunk;
                }
            }
            if chunk == 1 {
                break;
            }
            chunk /= 2;
        }
        // 2. simplify single operations
        let mut i = 0;
        while i < cur.len() && evals < budget {
            let mut cands: Vec<Op<S::V>> = Vec::new();
            match &cur[i] {
                Op::Push { slot, v, form } => {
                    if !form.is_empty() {
                        cands.push(Op::Push { slot: *slot, v: v.clone(), form: Vec::new() });
                    }
                    if *slot != 0 {
                        cands.push(Op::Push { slot: 0, v: v.clone(), form: form.clone() });
                    }
                    for w in S::shrink(v).into_iter().take(8) {
                        cands.push(Op::Push { slot: *slot, v: w, form: form.clone() });
                    }
                }
                Op::Reserve { slot, vs, form } => {
                    if !vs.is_empty() {
                        cands.push(Op::Reserve { slot: *slot, vs: vs[..vs.len() - 1].to_vec(), form: form.clone() });
                    }
                    if !form.is_empty() {
                        cands.push(Op::Reserve { slot: *slot, vs: vs.clone(), form: Vec::new() });
                    }
                }
                Op::ReserveRegions { slot, srcs } if !srcs.is_empty() => {
                    cands.push(Op::ReserveRegions { slot: *slot, srcs: srcs[..srcs.len() - 1].to_vec() });
                }
                Op::Merge { dst, srcs } if !srcs.is_empty() => {
                    cands.push(Op::Merge { dst: *dst, srcs: srcs[..srcs.len() - 1].to_vec() });
                    cands.push(Op::Merge { dst: *dst, srcs: srcs[1..].to_vec() });
                }
                _ => {}
            }
            let mut improved = false;
            for c in cands {
                if evals >= budget {
                    break;
                }
                let mut cand = cur.clone();
                cand[i] = c;
                evals += 1;
                if fails(&cand) {
                    cur = cand;
                    improved = true;
                    progress = true;
                    break;
                }
            }
            if !improved {
                i += 1;
            }
        }
    }
    cur
}

/// A handful of distinct small values of a spec (for bounded-exhaustive alphabets).
pub fn small_values<S: Spec>(want: usize) -> Vec<S::V> {
    let mut out: Vec<S::V> = Vec::new();
    let gp = Gp::small();
    for a in [0u8, 96, 160, 255, 48, 200, 128, 16, 232] {
        for b in [0u8, 128, 255] {
            let bytes = [a, b, a, b, a, b, a, b];
            let v = S::gen(&mut Tape::new(&bytes), &gp);
            if !out.contains(&v) {
                out.push(v);
                if out.len() >= want {
                    return out;
                }
            }
        }
    }
    out
}
