//! Panic capture, counters, small helpers shared by the engines.

use std::cell::RefCell;
use std::collections::BTreeMap;
use std::panic::{catch_unwind, AssertUnwindSafe};

thread_local! {
    static LAST_PANIC: RefCell<Option<String>> = RefCell::new(None);
}

/// Install a silent panic hook that remembers message and location per thread.
pub fn install_panic_hook() {
    std::panic::set_hook(Box::new(|info| {
        let msg = if let Some(s) = info.payload().downcast_ref::<&str>() {
            s.to_string()
        } else if let Some(s) = info.payload().downcast_ref::<String>() {
            s.clone()
        } else {
            "<non-string panic payload>".to_string()
        };
        let loc = info
            .location()
            .map(|l| format!("{}:{}", l.file(), l.line()))
            .unwrap_or_else(|| "<unknown>".into());
        LAST_PANIC.with(|p| *p.borrow_mut() = Some(format!("{msg} @ {loc}")));
    }));
}

/// Run `f`, turning a panic into `Err(message @ file:line)`.
pub fn guard<T>(f: impl FnOnce() -> T) -> Result<T, String> {
    LAST_PANIC.with(|p| *p.borrow_mut() = None);
    match catch_unwind(AssertUnwindSafe(f)) {
        Ok(v) => Ok(v),
        Err(_) => Err(LAST_PANIC
            .with(|p| p.borrow_mut().take())
            .unwrap_or_else(|| "<panic without message>".into())),
    }
}

/// A string-keyed counter map.
#[derive(Default, Clone, Debug)]
pub struct Counters(pub BTreeMap<String, u64>);
impl Counters {
    pub fn hit(&mut self, k: &str) {
        *self.0.entry(k.to_string()).or_insert(0) += 1;
    }
    pub fn add(&mut self, k: &str, n: u64) {
        if n > 0 {
            *self.0.entry(k.to_string()).or_insert(0) += n;
        }
    }
    pub fn get(&self, k: &str) -> u64 {
        self.0.get(k).copied().unwrap_or(0)
    }
    pub fn merge(&mut self, o: &Counters) {
        for (k, v) in &o.0 {
            *self.0.entry(k.clone()).or_insert(0) += *v;
        }
    }
}

/// The panic location ("file:line") out of a guard message, for signatures.
pub fn panic_site(msg: &str) -> String {
    match msg.rfind(" @ ") {
        Some(i) => {
            let loc = msg[i + 3..].split_whitespace().next().unwrap_or("");
            // keep the path relative to the crate
            match loc.find("src/") {
                Some(j) => loc[j..].to_string(),
                None => loc.to_string(),
            }
        }
        None => "nopanic".to_string(),
    }
}
