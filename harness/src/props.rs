//! Per-property configuration: which engines, which catalogue entries, which generator weights,
//! which oracles, which non-triviality rule, how many cases.

use crate::catalogue::{self, Visitor};
use crate::history::*;
use crate::runner::*;
use crate::spec::*;

#[derive(Clone, Copy, Debug, PartialEq, Eq)]
pub enum Tier {
    Quick,
    Thorough,
}
impl Tier {
    pub fn name(self) -> &'static str {
        match self {
            Tier::Quick => "quick",
            Tier::Thorough => "thorough",
        }
    }
    pub fn pick<T>(self, q: T, t: T) -> T {
        match self {
            Tier::Quick => q,
            Tier::Thorough => t,
        }
    }
}

/// The history-engine configuration of a property variant. Shared by run and replay.
pub fn hist_cfg(property: &str, variant: &str) -> Option<HistCfg> {
    if variant == "long" && property != "C02" {
        // the property's usual weights and oracles over long histories of small values
        // (hundreds of operations: many reallocations, representation switches, clear cycles)
        let mut c = hist_cfg(property, "hist")?;
        c.max_ops = 300;
        c.nslots = 2;
        c.gp = Gp::small();
        c.long = true;
        return Some(c);
    }
    let mut c = HistCfg::base();
    //            push rsv rsvr clr frsh cln clnf mrg serde
    match (property, variant) {
        ("C01", "batch") => {
            c.w = [70, 0, 0, 0, 0, 0, 0, 7, 0];
            c.max_ops = 12;
            c.nslots = 2;
            c.borrowed = false;
        }
        ("C02", "hist") => {
            c.w = [70, 9, 7, 1, 0, 0, 0, 3, 0];
            c.max_ops = 40;
        }
        ("C02", "long") => {
            c.w = [90, 4, 3, 0, 0, 0, 0, 1, 0];
            c.max_ops = 400;
            c.gp = Gp::small();
            c.long = true;
            c.nslots = 2;
        }
        ("C02", "exh") => {
            c.w = [1, 0, 0, 0, 0, 0, 0, 0, 0];
            c.nslots = 2;
        }
        ("C04", "hist") => {
            c.w = [50, 4, 4, 6, 3, 6, 5, 6, 6];
            c.max_ops = 40;
        }
        ("C08", "hist") => {
            c.w = [55, 3, 3, 14, 2, 3, 2, 5, 2];
            c.twin = Twin::ClearToFresh;
            c.reuse = 128;
        }
        ("C08", "exh") => {
            c.twin = Twin::ClearToFresh;
            c.nslots = 2;
        }
        ("C09", "hist") => {
            c.w = [45, 2, 2, 5, 2, 14, 14, 3, 2];
            c.twin = Twin::CloneFromToClone;
            c.cmp_used = true;
            c.reuse = 96;
        }
        ("C10", "hist") => {
            c.w = [50, 12, 10, 3, 2, 3, 2, 12, 2];
            c.twin = Twin::DropReserves;
            c.reuse = 96;
        }
        ("C11", "hist") => {
            c.w = [60, 3, 5, 8, 3, 6, 4, 8, 5];
            c.gp = Gp::small();
            c.reuse = 160;
            c.storage = true;
        }
        ("C11", "exh") => {
            c.gp = Gp::small();
            c.storage = true;
            c.nslots = 2;
        }
        ("C12", "hist") => {
            c.w = [65, 2, 2, 8, 3, 2, 2, 8, 2];
        }
        ("C12", "exh") => {
            c.nslots = 2;
        }
        ("C13", "hist") => {
            c.w = [80, 0, 0, 4, 0, 2, 0, 3, 0];
            c.max_ops = 16;
            c.oob = true;
            c.borrowed = true;
            c.nslots = 2;
        }
        ("C16", "hist") => {
            c.w = [55, 3, 3, 5, 2, 3, 2, 4, 16];
            c.twin = Twin::DropSerde;
            c.cmp_used = true;
            c.reuse = 128;
        }
        ("C18", "hist") => {
            c.w = [60, 8, 5, 10, 2, 3, 2, 5, 2];
            c.heap = true;
        }
        ("C20", "hist") => {
            c.w = [80, 4, 0, 3, 0, 3, 2, 4, 2];
            c.twin = Twin::CanonicalForms;
            c.cmp_used = true;
            c.max_ops = 24;
        }
        _ => return None,
    }
    Some(c)
}

// ---- non-triviality rules -------------------------------------------------------------------

fn nt_c01<V>(ops: &[Op<V>], st: &RunStats) -> bool {
    st.pushes >= 1 && ops.iter().any(|o| matches!(o, Op::Push { .. }))
}
fn nt_c02<V>(_ops: &[Op<V>], st: &RunStats) -> bool {
    st.pushes >= 2
        && (st.ev.get("capacity-change-on-push") > 0
            || st.ev.get("dedup-hit") > 0
            || st.ev.get("reserve-on-populated") > 0)
}
fn nt_c04<V>(_ops: &[Op<V>], st: &RunStats) -> bool {
    st.pushes >= 2 && st.ev.get("multibyte-strs-checked") >= 2
}
fn push_clear_push<V>(ops: &[Op<V>]) -> bool {
    // a slot with a push, later a clear, later a push
    for s in 0..4u8 {
        let mut stage = 0;
        for o in ops {
            match o {
                Op::Push { slot, .. } if *slot == s => {
                    if stage == 0 {
                        stage = 1
                    } else if stage == 2 {
                        return true;
                    }
                }
                Op::Clear { slot } if *slot == s && stage == 1 => stage = 2,
                _ => {}
            }
        }
    }
    false
}
fn nt_c08<V>(ops: &[Op<V>], st: &RunStats) -> bool {
    st.ev.get("clear-of-populated") > 0 && push_clear_push(ops)
}
fn nt_c09<V>(_ops: &[Op<V>], st: &RunStats) -> bool {
    st.ev.get("clone-of-populated") + st.ev.get("clone_from-into-longer-destination")
        + st.ev.get("clone_from-into-shorter-destination")
        > 0
        && st.pushes >= 2
}
fn nt_c10<V>(ops: &[Op<V>], st: &RunStats) -> bool {
    let mut armed = [false; 4];
    for o in ops {
        match o {
            Op::Reserve { slot, vs, .. } if !vs.is_empty() => armed[*slot as usize % 4] = true,
            Op::ReserveRegions { slot, srcs } if !srcs.is_empty() => armed[*slot as usize % 4] = true,
            Op::Merge { dst, .. } => armed[*dst as usize % 4] = true,
            Op::Push { slot, .. } if armed[*slot as usize % 4] => return st.pushes >= 1,
            _ => {}
        }
    }
    false
}
fn nt_c11<V>(_ops: &[Op<V>], st: &RunStats) -> bool {
    let hits = st.ev.get("dedup-hit") as usize;
    hits >= 1 && st.pushes > hits
}
fn nt_c12<V>(_ops: &[Op<V>], st: &RunStats) -> bool {
    st.pushes >= 3
}
fn nt_c13<V>(_ops: &[Op<V>], st: &RunStats) -> bool {
    st.ev.get("oob-probes-at-len-with-successor") >= 1
}
fn nt_c16<V>(ops: &[Op<V>], st: &RunStats) -> bool {
    if st.ev.get("serde-of-populated") == 0 {
        return false;
    }
    let mut seen = [false; 4];
    for o in ops {
        match o {
            Op::Serde { slot } => seen[*slot as usize % 4] = true,
            Op::Push { slot, .. } if seen[*slot as usize % 4] => return true,
            _ => {}
        }
    }
    false
}
fn nt_c18<V>(_ops: &[Op<V>], st: &RunStats) -> bool {
    st.pushes >= 2
}
fn nt_c20<V>(ops: &[Op<V>], st: &RunStats) -> bool {
    let mut forms: Vec<&Vec<u8>> = Vec::new();
    for o in ops {
        if let Op::Push { form, .. } = o {
            if !form.is_empty() && form[0] >= 26 && !forms.contains(&form) {
                forms.push(form);
            }
        }
    }
    st.pushes >= 2 && forms.len() >= 2
}

// ---- unit construction ----------------------------------------------------------------------

pub struct Plan {
    pub units: Vec<Unit>,
    pub rule: String,
    pub assumptions: Vec<String>,
}

struct HistCollector {
    property: &'static str,
    variant: &'static str,
    cfg: HistCfg,
    cases: u32,
    max_tape: usize,
    seed: u64,
    units: Vec<Unit>,
    filter: fn(&SpecInfo) -> bool,
}

pub struct SpecInfo {
    pub name: String,
    pub heap: bool,
    pub coded: bool,
    pub stringy: bool,
    pub collapsing: bool,
    pub json_safe: bool,
    pub slicy: bool,
    pub can_clone: bool,
    pub can_serde: bool,
    pub dense: bool,
}

pub fn spec_info<S: Spec>(caps: &Caps<S::R>) -> SpecInfo {
    let name = S::name();
    SpecInfo {
        dense: name.starts_with("Cip<") || name.starts_with("Columns<"),
        name,
        heap: S::HEAP,
        coded: S::CODED,
        stringy: S::STRINGY,
        collapsing: S::COLLAPSING,
        json_safe: S::JSON_SAFE,
        slicy: S::SLICY,
        can_clone: caps.clone.is_some(),
        can_serde: caps.to_json.is_some(),
    }
}

macro_rules! nt_dispatch {
    ($prop:expr, $S:ty) => {
        match $prop {
            "C01" => nt_c01::<<$S as Spec>::V> as NonTrivial<<$S as Spec>::V>,
            "C02" => nt_c02::<<$S as Spec>::V>,
            "C04" => nt_c04::<<$S as Spec>::V>,
            "C08" => nt_c08::<<$S as Spec>::V>,
            "C09" => nt_c09::<<$S as Spec>::V>,
            "C10" => nt_c10::<<$S as Spec>::V>,
            "C11" => nt_c11::<<$S as Spec>::V>,
            "C12" => nt_c12::<<$S as Spec>::V>,
            "C13" => nt_c13::<<$S as Spec>::V>,
            "C16" => nt_c16::<<$S as Spec>::V>,
            "C18" => nt_c18::<<$S as Spec>::V>,
            "C20" => nt_c20::<<$S as Spec>::V>,
            _ => nt_c01::<<$S as Spec>::V>,
        }
    };
}

impl Visitor for HistCollector {
    fn visit<S: Spec>(&mut self, caps: Caps<S::R>) {
        let info = spec_info::<S>(&caps);
        if !(self.filter)(&info) {
            return;
        }
        let nt = nt_dispatch!(self.property, S);
        self.units.push(history_unit::<S>(
            self.property,
            self.variant,
            caps,
            self.cfg.clone(),
            self.cases,
            self.max_tape,
            self.seed,
            nt,
        ));
    }
}

/// Bounded-exhaustive histories over a small op alphabet.
struct ExhCollector {
    property: &'static str,
    cfg: HistCfg,
    max_len: usize,
    units: Vec<Unit>,
    filter: fn(&SpecInfo) -> bool,
    with_clone: bool,
    with_serde: bool,
    nvalues: usize,
}

impl Visitor for ExhCollector {
    fn visit<S: Spec>(&mut self, caps: Caps<S::R>) {
        let info = spec_info::<S>(&caps);
        if !(self.filter)(&info) {
            return;
        }
        let vals = small_values::<S>(self.nvalues);
        let mut alphabet: Vec<Op<S::V>> = Vec::new();
        for v in &vals {
            alphabet.push(Op::Push { slot: 0, v: v.clone(), form: Vec::new() });
        }
        alphabet.push(Op::Clear { slot: 0 });
        alphabet.push(Op::Merge { dst: 0, srcs: vec![0] });
        if self.with_clone && caps.clone.is_some() {
            alphabet.push(Op::Clone { dst: 1, src: 0 });
            alphabet.push(Op::CloneFrom { dst: 0, src: 1 });
            if let Some(v) = vals.first() {
                alphabet.push(Op::Push { slot: 1, v: v.clone(), form: Vec::new() });
            }
        }
        if self.with_serde && caps.to_json.is_some() && S::JSON_SAFE {
            alphabet.push(Op::Serde { slot: 0 });
        }
        let nt = nt_dispatch!(self.property, S);
        self.units.push(exhaustive_history_unit::<S>(
            self.property,
            "exh",
            caps,
            self.cfg.clone(),
            alphabet,
            self.max_len,
            nt,
        ));
    }
}

fn any_spec(_: &SpecInfo) -> bool {
    true
}
fn stringy(i: &SpecInfo) -> bool {
    i.stringy
}
fn clonable(i: &SpecInfo) -> bool {
    i.can_clone
}
fn collapsing(i: &SpecInfo) -> bool {
    i.collapsing
}
fn dense(i: &SpecInfo) -> bool {
    i.dense
}
fn slicy(i: &SpecInfo) -> bool {
    i.slicy
}
fn serdeable(i: &SpecInfo) -> bool {
    i.can_serde && i.json_safe
}
fn heapy(i: &SpecInfo) -> bool {
    i.heap
}
fn tiny_collapsing(i: &SpecInfo) -> bool {
    matches!(
        i.name.as_str(),
        "Collapse<Str>" | "Collapse<Cip<Str,IndexOptimized>>" | "Collapse<Mirror<f32>>" | "Tuple2<Collapse<Str>,Mirror<u8>>"
    )
}
fn tiny_domain(i: &SpecInfo) -> bool {
    matches!(
        i.name.as_str(),
        "Collapse<Str>" | "Cip<Owned<u8>,IndexOptimized>" | "Columns<Mirror<u8>,IndexOptimized>"
            | "Huffman<u8>" | "Cip<Str,IndexList>" | "Slice<Cip<Str,IndexOptimized>,IndexOptimized>"
    )
}
fn tiny_dense(i: &SpecInfo) -> bool {
    matches!(
        i.name.as_str(),
        "Columns<Mirror<u8>,IndexOptimized>" | "Cip<Owned<u8>,IndexOptimized>" | "Columns<Str,IndexOptimized>"
            | "Cip<Huffman<u8>,IndexOptimized>"
    )
}

fn hist_units(
    property: &'static str,
    variant: &'static str,
    cases: u32,
    max_tape: usize,
    seed: u64,
    filter: fn(&SpecInfo) -> bool,
    whole: bool,
) -> Vec<Unit> {
    let cfg = hist_cfg(property, variant).expect("known variant");
    let mut c = HistCollector { property, variant, cfg, cases, max_tape, seed, units: Vec::new(), filter };
    if whole {
        catalogue::all(&mut c);
    } else {
        catalogue::core(&mut c);
    }
    c.units
}

fn exh_units(
    property: &'static str,
    max_len: usize,
    nvalues: usize,
    filter: fn(&SpecInfo) -> bool,
    with_clone: bool,
    with_serde: bool,
) -> Vec<Unit> {
    let cfg = hist_cfg(property, "exh").expect("exh variant");
    let mut c = ExhCollector { property, cfg, max_len, units: Vec::new(), filter, with_clone, with_serde, nvalues };
    catalogue::all(&mut c);
    c.units
}

pub const GEN_RULE: &str = "Cases are decoded from byte tapes generated by proptest (ChaCha, fixed seed derived from VERIF_SEED, no persistence); a tape decodes into a history of region operations over 2-3 slots of one catalogued composition, values from boundary-biased per-type generators, 1/4 of values re-used from earlier in the history. distinct_nontrivial counts distinct 64-bit hashes of (composition, decoded history) that satisfy: ";

pub fn plan(property: &str, tier: Tier, seed: u64) -> Option<Plan> {
    let q = tier == Tier::Quick;
    let mut assumptions = vec![
        "the harness reference models (owned values, index prediction, storage bounds) are correct; they were written from the crate documentation, not from its code paths".to_string(),
        "regions are only used through the public API; indices come from push on that region since its last clear".to_string(),
    ];
    let (units, rule): (Vec<Unit>, String) = match property {
        "C01" => (
            {
                let mut u = hist_units("C01", "batch", tier.pick(6000, 30000), 256, seed, any_spec, true);
                u.push(crate::engines::exotic::unit("C01", tier.pick(10000, 50000), seed));
                u
            },
            format!("{GEN_RULE}the history pushes at least one value (any form) and reads it back with every accessor (len, is_empty, get(i), iteration, cloned iteration, into_owned)."),
        ),
        "C02" => {
            let mut u = hist_units("C02", "hist", tier.pick(3000, 15000), 640, seed, any_spec, false);
            u.extend(hist_units("C02", "long", tier.pick(150, 800), 3000, seed, any_spec, false));
            u.extend(exh_units("C02", tier.pick(4, 5), 3, tiny_domain, false, false));
            (u, format!("{GEN_RULE}at least two pushes, and after the first push some later step caused internal growth (a reported capacity changed), a deduplicated push, or a reservation on a populated region; all earlier indices are re-read after every step."))
        }
        "C04" => (
            {
                let mut u = hist_units("C04", "hist", tier.pick(5000, 25000), 640, seed, stringy, true);
                // the crate's sources (a scratch copy when FCVERIF_REPO_SRC is set by the mutant tooling)
                let root: &'static str = match std::env::var("FCVERIF_REPO_SRC") {
                    Ok(p) => Box::leak(p.into_boxed_str()),
                    Err(_) => "/repo/src",
                };
                u.push(crate::engines::scan::c04_unit(root));
                u
            },
            format!("{GEN_RULE}at least two stored strings with multi-byte scalars were re-validated (from_utf8 on the bytes of every &str reachable from any read item) after every step. Static half (exhaustive over the program text, not generated): every `impl Push<X> for StringRegion` header in /repo/src must have X among String, &String, &str, &&str; every `unsafe` token is listed in the evidence."),
        ),
        "C08" => {
            let mut u = hist_units("C08", "hist", tier.pick(3000, 15000), 640, seed, any_spec, false);
            u.extend(exh_units("C08", tier.pick(4, 5), 3, tiny_domain, false, false));
            (u, format!("{GEN_RULE}some slot is pushed to, cleared while populated, and pushed to again; the post-clear indices must equal the reference model's prediction for a default region and those of a twin universe that replaced clear() by Default::default()."))
        }
        "C09" => (
            hist_units("C09", "hist", tier.pick(3000, 15000), 640, seed, clonable, false),
            format!("{GEN_RULE}a populated region is cloned (or clone_from'ed into a longer/shorter destination) and at least two pushes happen; both copies are checked against their own models after every step, indices against the prediction model, and clone_from against a twin that used clone."),
        ),
        "C10" => (
            hist_units("C10", "hist", tier.pick(3000, 15000), 640, seed, any_spec, false),
            format!("{GEN_RULE}a reserve_items / reserve_regions with a non-empty argument or a merge_regions is followed by a push into that slot; indices must equal the prediction for an unreserved default region and those of a twin universe without any reserve call."),
        ),
        "C11" => {
            let mut u = hist_units("C11", "hist", tier.pick(6000, 30000), 640, seed, collapsing, true);
            u.extend(exh_units("C11", tier.pick(5, 6), 3, tiny_collapsing, true, true));
            (u, format!("{GEN_RULE}at least one push collapsed into its predecessor and at least one did not; a collapsing push must return the previous index and leave Σused unchanged, any other push must read back its own value."))
        }
        "C12" => {
            let mut u = hist_units("C12", "hist", tier.pick(6000, 30000), 640, seed, dense, true);
            u.extend(exh_units("C12", tier.pick(5, 6), 4, tiny_dense, false, false));
            (u, format!("{GEN_RULE}at least three pushes; the k-th push since creation/merge/clear must return k and index k must read the k-th value with exactly its own length."))
        }
        "C13" => (
            hist_units("C13", "hist", tier.pick(400, 3000), 256, seed, slicy, true),
            format!("{GEN_RULE}some slice/row item that has a successor in its region was probed at position len (and len+1, len+2, len+7, usize::MAX) in the region-backed and the owned-borrowed representation; returning any value is the violation."),
        ),
        "C16" => (
            hist_units("C16", "hist", tier.pick(3000, 15000), 640, seed, serdeable, false),
            format!("{GEN_RULE}a populated region is replaced by from_str(to_string(region)) (serde_json) and later pushed to; reads, returned indices and Σused must equal the prediction and a twin universe that never serialised."),
        ),
        "C18" => (
            {
                let mut u = hist_units("C18", "hist", tier.pick(4000, 20000), 640, seed, heapy, false);
                u.extend(crate::engines::series::units("C18", !q));
                u
            },
            format!("{GEN_RULE}at least two pushes; after every step used<=capacity per pair, Σused at least the model's payload+index lower bound, monotone on push, and the clear rule. Plus long series: 2^12 (thorough 2^14) pushes of small values, and 2^11 pushes of wide and of extreme values, into one default region of every composition with heap_size, alternating input forms, the same invariants after every push (lower bound at every power of two) and the clear rule at the end."),
        ),
        "C20" => (
            {
                let mut u = hist_units("C20", "hist", tier.pick(5000, 25000), 384, seed, any_spec, true);
                u.push(crate::engines::exotic::unit("C20", tier.pick(20000, 100000), seed));
                u
            },
            format!("{GEN_RULE}at least two pushes that use two different non-canonical input forms; indices and Σused must equal those of a twin universe fed the canonical form (&Owned). Plus a concrete-type unit for forms that reach a child's &&T / array / iterator impls through a parent (Vec<&str>, &[&str], [&str;N], &[&[u8]], Vec<PushIter<_>>, &[&u8], (&str,&u8), Option<&&str>, Result<&str,&&[u8]>, PushIter<slice::Iter<String>> ...): every form is pushed onto its own region rebuilt to the same state and must return the same index, store the same number of bytes and read back the value."),
        ),
        "C03" => (
            crate::engines::stack::units("C03", tier.pick(4000, 20000), seed),
            "FlatStack histories: proptest tapes decoded into copy (any form) / extend and from_iter (iterators whose size_hint lower bound is 0, half or all of the true length) / with_capacity / reserve / reserve_items / reserve_regions / clear / clone / clone_from / merge_capacity / serde operations over two stacks of one (region composition, index container) pair; after every step both stacks are compared with a Vec of owned values: len, is_empty, get(i) for all i with the deep read oracle, iteration order, size_hint validity at every position (exactness for the vector index container), a cloned iterator taken mid-way, (&stack).into_iter(), and get(i) for i in {len, len+1, len+7, usize::MAX} must panic. Non-trivial: at least three copied elements, at least two of them distinct.".to_string(),
        ),
        "C06" => (
            crate::engines::huffman::units("C06", !q, seed),
            "Huffman containers. A case = training statistics (symbol, count) spread over 1-4 raw containers, 1-3 generations of merge_regions (each built from 1-3 copies of the previous containers), per generation a list of items over the covered alphabet pushed through all input forms, refusal probes with an uncovered symbol (on clones), and raw pushes after a final clear. Oracles: raw mode round-trips with symbol offsets; per generation the code length of every symbol is measured on a probe clone: >= 1 bit, Kraft sum <= 1, and sum(count*length) equals the cost of a textbook two-queue Huffman code computed by the harness (optimality; ties free); every push starts at the previous end bit and occupies exactly the sum of its code lengths; every issued item decodes exactly (bounded iteration, then into_owned) after every later push; an uncovered symbol must panic at push; encoded items copy into raw and encoded containers. (a) bounded-exhaustive: all sorted count multisets over 1..4 (thorough 5) symbols with counts from {1,2,3,5(,8)} x all sequences of <= 2 (3) items of <= 2 (3) symbols over <= 3 symbols, plus run-length triples reaching every start offset and 0/1/2+ whole bytes; (b) proptest tapes with frequency profiles single symbol / 2^k, 2^k+-1 equal counts / Fibonacci (codes to 16, thorough 22 bits) / geometric / 257..376 (thorough 756) equiprobable u16 symbols / empty / random. Non-trivial: >= 1 generation, >= 2 item reads and some item starting at a non-zero bit offset.".to_string(),
        ),
        "C07" => (
            crate::engines::codec::units("C07", !q, seed),
            "Dictionary-coded regions. A case = up to 60 operations over four CodecRegion<DictionaryCodec> slots: push / push n copies / push n distinct strings (up to 1430, crossing the heavy-hitter summary's compaction at 1024) / merge_regions from 0..3 arbitrary slots (repeats and the target's own ancestors allowed, any number of generations) / clear. Strings: empty, pool re-use, prefixes and extensions of pool entries, single small bytes (the first tags that get assigned), strings starting with a small byte or 254/255, random bytes of length 1..20. Oracles against a reference model of the source statistics: every push that returns reads back exactly its bytes, now and after every later operation; a push may panic (refusal) only if the region is merged, the string is non-empty and its first byte does not occur in the source statistics; stored bytes per push (delta of the used bytes reported by heap_size) never exceed the length, equal the length on default/cleared regions, and equal 1 for strings that certainly dominate (exact regime, <= 500 distinct strings: fewer than F other non-empty strings have a count >= theirs, F = number of unobserved first bytes; lossy regime: the string holds >= 3/4 of every source's pushes); a merged region starts empty. After a permitted refusal the region is rebuilt from its recipe. Non-trivial: the case stored at least one dictionary hit (1 byte for a longer string) and at least one literal in a merged region.".to_string(),
        ),
        "C14" => (
            crate::engines::laws::units("C14", tier.pick(6000, 30000), seed),
            "IntoOwned laws on every catalogued composition: a case = a source region holding 1..5 generated values, a chosen item x, an arbitrary generated prior value t for the clone_onto target (re-using one of the items a quarter of the time), and a destination region with 0..3 prior items. Checked: into_owned(x) equals the pushed value; borrow_as(&into_owned(x)) passes the deep read oracle (len, get, iteration, into_owned); reborrow(x) passes it; clone_onto from the region-backed and from the owned-borrowed item leaves t equal to the pushed value whatever t held; pushing x and borrow_as(&owned) into the destination region yields an item that passes the deep oracle, leaves the destination's earlier items and the source unchanged. Non-trivial: the prior target value differs from the item's value (longer/shorter/other variant).".to_string(),
        ),
        "C15" => (
            crate::engines::order::units("C15", !q, seed),
            "Equality and ordering of read items. A case = three values (vectors over a small ordered domain: elements from a 2-4 value alphabet, lengths 0..12, later values are copies / strict prefixes / one-element extensions of earlier ones 30% of the time), each stored in one of two slice regions of the same type with different prior contents or taken as borrow_as(&owned); for Huffman items: a raw container, two encoded containers trained on opposite frequency profiles (so equal content has different bit lengths) or borrowed. Oracle: == equals equality of the owned vectors; cmp equals their lexicographic cmp; partial_cmp == Some(cmp); eq <=> cmp == Equal; antisymmetry on every ordered pair; transitivity over all permutations of the triple; sorting three items by Ord gives the owned order. Subjects: slices over Mirror<u8>, Str, Owned<u8>, nested slices, consecutive-pair strings with IndexOptimized / IndexList / Vec index containers (f64 slices: PartialEq/PartialOrd by IEEE on finite values); Huffman<u8>. Bounded-exhaustive: all triples of vectors of length <= 3 over {0,1} x all 27 representation assignments (3375x27), strings over two values (length <= 2, thorough 3), Huffman over {0,1,2} (length <= 2, thorough 3) x 64 assignments. Non-trivial: a pair that is a strict prefix, or equal content in different representations/regions.".to_string(),
        ),
        "C17" => (
            crate::engines::alloc::units("C17", !q, seed),
            "Allocation discipline, observed with heap_size capacities and a counting #[global_allocator] in the harness binary (thread-local counters, switched on only around the measured pushes). (a) every vector-backed structural composition (owned slices, strings, slices of regions with vector index lists, options, results, tuples, vectors as regions; plain-data payload) and FlatStack over them with a vector index container: a case = optional populated prefix, a generated batch (empty items, many small, few large, repeated values, skewed variants, nested slices), one of the routes reserve_items(batch) / reserve_regions(1..3 sources holding the batch) / merge_regions(sources) / FlatStack reserve+reserve_items / merge_capacity, then exactly the announced values are pushed (as borrowed read items built beforehand, so the measured section creates no temporaries): every reported capacity must stay constant and the allocator must not be called. (b) every non-coded plain-data composition: n = 2^6, 2^8, .. 2^14 (thorough 2^16) items from an 8-value pool pushed into a default region: allocator calls <= storages*(log2 n + 10) + 8 and growth per quadrupling <= 2*storages + 6. Non-trivial: batch with >= 8 items, >= 2 distinct payload sizes and >= 64 payload bytes; each (composition, n) of the logarithmic series.".to_string(),
        ),
        "C05" => (
            crate::engines::index::units("C05", !q, seed, false),
            "Index containers. (a) bounded-exhaustive: every sequence of push(x)/clear over the alphabet {0,1,2,3,4,6,u32::MAX,u32::MAX+1,2^63,usize::MAX,clear} up to length 6 (quick) / 7 (thorough; 9 on a 6-symbol sub-alphabet) applied to Stride, IndexList, IndexOptimized (Vec<usize> to length 5), explored depth-first with cloned state, compared after every op with a Vec<usize> reference (len, is_empty, index(i) for all i, iteration) and, for Stride, with a u128 acceptor of the documented pattern (accept/reject, state unchanged on reject); any panic is a violation. (b) proptest tapes decoded into op lists built from arithmetic runs, repeat runs, boundary values, clear, extend, reserve, serde round trip, clone/clone_from (<= 2000 elements). Non-trivial: >= 3 pushes and the sequence left the pure stride pattern, or a push was rejected, or a clear was followed by reuse; enumerated sequences are distinct by construction, random ones are counted by hash.".to_string(),
        ),
        "C19" => (
            crate::engines::index::units("C19", !q, seed, true),
            "Index containers, space rule. The same enumeration and random op lists as C05, with the documented cost computed independently in u128 (longest 0,s,2s,..,repeat-last prefix free; then 4 bytes per entry until the first value above u32::MAX, 8 bytes from there on): the sum of used bytes reported by heap_size must not exceed it, and a pure stride/saturation sequence on a container that never spilled or reserved must report no capacity at all. Non-trivial as in C05.".to_string(),
        ),
        _ => return None,
    };
    let (mut units, mut rule) = (units, rule);
    if let Some(lp) = ["C08", "C09", "C10", "C11", "C12", "C16", "C18", "C20"].iter().find(|p| **p == property) {
        let filter: fn(&SpecInfo) -> bool = match *lp {
            "C09" => clonable,
            "C11" => collapsing,
            "C12" => dense,
            "C16" => serdeable,
            "C18" => heapy,
            _ => any_spec,
        };
        units.extend(hist_units(lp, "long", tier.pick(40, 300), 2400, seed, filter, false));
        rule.push_str(" Long mode: the same oracles over histories of up to 300 operations on two slots with small values (many reallocations, representation switches and clear/merge/clone cycles).");
    }
    if matches!(property, "C02" | "C08" | "C09" | "C10" | "C13" | "C16" | "C18" | "C19") {
        let (sp, n): (&'static str, u32) = match property {
            "C02" => ("C02", tier.pick(1500, 8000)),
            "C08" => ("C08", tier.pick(1500, 8000)),
            "C09" => ("C09", tier.pick(1500, 8000)),
            "C10" => ("C10", tier.pick(1500, 8000)),
            "C13" => ("C13", tier.pick(150, 1500)),
            "C16" => ("C16", tier.pick(1500, 8000)),
            "C18" => ("C18", tier.pick(1500, 8000)),
            _ => ("C19", tier.pick(1500, 8000)),
        };
        units.extend(crate::engines::stack::units(sp, n, seed));
        rule.push_str(" FlatStack clause: the same property is exercised on FlatStack<region, index container> histories (copy/extend/from_iter/with_capacity/reserve/clear/clone/clone_from/merge_capacity/serde over two stacks) against a Vec of owned values, with the index container's share of heap_size (its trailing (used,capacity) pairs) compared with the documented cost of the predicted index sequence.");
    }
    if property == "C16" {
        use crate::engines::index::{random_unit, IL};
        use flatcontainer::impls::index::{IndexOptimized, Stride};
        let n = tier.pick(3000, 20000);
        units.push(random_unit::<Stride>("C16", n, 2000, seed, false));
        units.push(random_unit::<IndexOptimized>("C16", n, 2000, seed, false));
        units.push(random_unit::<IL>("C16", n, 2000, seed, false));
        rule.push_str(" Index containers alone (Stride, IndexOptimized, IndexList): random op lists with serde round trips at arbitrary points; the deserialised container must have the same Debug fingerprint and keep agreeing with the Vec<usize> reference under the continuation.");
    }
    if q {
        assumptions.push("quick tier: fixed case counts per composition (not time-boxed)".into());
    }
    Some(Plan { units, rule, assumptions })
}
