//! Replaying a saved (shrunk) case without proptest.

use serde_json::Value;

use crate::catalogue::{self, Visitor};
use crate::history::*;
use crate::props::hist_cfg;
use crate::spec::*;

struct HistReplayer<'a> {
    spec: &'a str,
    property: &'a str,
    variant: &'a str,
    ops: &'a Value,
    result: Option<Result<(), String>>,
}

impl<'a> Visitor for HistReplayer<'a> {
    fn visit<S: Spec>(&mut self, caps: Caps<S::R>) {
        if self.result.is_some() || S::name() != self.spec {
            return;
        }
        let ops: Vec<Op<S::V>> = match serde_json::from_value(self.ops.clone()) {
            Ok(o) => o,
            Err(e) => {
                self.result = Some(Err(format!("cannot decode ops for {}: {e}", self.spec)));
                return;
            }
        };
        let Some(cfg) = hist_cfg(self.property, self.variant) else {
            self.result = Some(Err(format!("unknown variant {}/{}", self.property, self.variant)));
            return;
        };
        let mut st = RunStats::default();
        self.result = Some(run_history::<S>(&ops, caps, &cfg, &mut st));
    }
}

/// Re-run the case of a replay document. `Ok(())` = passes, `Err(message)` = still fails.
pub fn replay(doc: &Value) -> Result<(), String> {
    let property = doc["property"].as_str().unwrap_or("");
    let case = &doc["case"];
    let engine = case["engine"].as_str().unwrap_or("");
    match engine {
        "history" => {
            let mut r = HistReplayer {
                spec: case["spec"].as_str().unwrap_or(""),
                property,
                variant: case["variant"].as_str().unwrap_or(""),
                ops: &case["ops"],
                result: None,
            };
            catalogue::all(&mut r);
            r.result.unwrap_or_else(|| Err(format!("composition {:?} is not in the catalogue", case["spec"])))
        }
        other => crate::engines::replay(property, other, case),
    }
}
