//! A byte tape: the single source of generated choices.
//!
//! Every generated case is a pure function of a byte string (the *tape*). proptest (quick /
//! thorough tiers) and libFuzzer (thorough tier) both only ever produce tapes; the decoders in
//! `spec`/`history`/the engines turn a tape into a structured case. An exhausted tape yields
//! zeros, and zero always selects the first (simplest / canonical) alternative, so shortening a
//! tape or lowering its bytes simplifies the decoded case.

#[derive(Clone, Debug)]
pub struct Tape<'a> {
    data: &'a [u8],
    pos: usize,
}

impl<'a> Tape<'a> {
    pub fn new(data: &'a [u8]) -> Self {
        Tape { data, pos: 0 }
    }
    pub fn exhausted(&self) -> bool {
        self.pos >= self.data.len()
    }
    pub fn remaining(&self) -> usize {
        self.data.len().saturating_sub(self.pos)
    }
    pub fn u8(&mut self) -> u8 {
        let b = self.data.get(self.pos).copied().unwrap_or(0);
        self.pos += 1;
        b
    }
    pub fn u16(&mut self) -> u16 {
        let a = self.u8() as u16;
        let b = self.u8() as u16;
        (a << 8) | b
    }
    pub fn u32(&mut self) -> u32 {
        let a = self.u16() as u32;
        let b = self.u16() as u32;
        (a << 16) | b
    }
    pub fn u64(&mut self) -> u64 {
        let a = self.u32() as u64;
        let b = self.u32() as u64;
        (a << 32) | b
    }
    pub fn u128(&mut self) -> u128 {
        let a = self.u64() as u128;
        let b = self.u64() as u128;
        (a << 64) | b
    }
    /// A value in `0..n` (monotone in the tape byte(s), never `%`). `n == 0` yields 0.
    pub fn below(&mut self, n: usize) -> usize {
        if n <= 1 {
            return 0;
        }
        if n <= 256 {
            (self.u8() as usize * n) >> 8
        } else if n <= 65536 {
            (self.u16() as usize * n) >> 16
        } else {
            ((self.u32() as u64 * n as u64) >> 32) as usize
        }
    }
    pub fn bool(&mut self) -> bool {
        self.u8() >= 128
    }
    /// true with probability about `num/256`.
    pub fn chance(&mut self, num: u16) -> bool {
        // high bytes trigger, so that zero (exhausted tape) means "no"
        (self.u8() as u16) >= 256u16.saturating_sub(num)
    }
    /// Pick an index according to integer weights (monotone: byte 0 picks the first entry with
    /// non-zero weight).
    pub fn weighted(&mut self, weights: &[u32]) -> usize {
        let total: u32 = weights.iter().sum();
        if total == 0 {
            return 0;
        }
        let x = ((self.u16() as u64 * total as u64) >> 16) as u32;
        let mut acc = 0;
        for (i, w) in weights.iter().enumerate() {
            acc += *w;
            if x < acc {
                return i;
            }
        }
        weights.len() - 1
    }
    /// A small length: mostly 0..=small, sometimes up to `big`.
    pub fn len(&mut self, small: usize, big: usize) -> usize {
        let b = self.u8();
        if b < 232 || big <= small {
            (b as usize * (small + 1)) / 232
        } else {
            small + 1 + self.below(big - small)
        }
    }
    pub fn bytes(&mut self, n: usize) -> Vec<u8> {
        (0..n).map(|_| self.u8()).collect()
    }
}

/// splitmix64 — used only to derive per-shard seeds from VERIF_SEED (never inside a property).
pub fn splitmix64(mut x: u64) -> u64 {
    x = x.wrapping_add(0x9E3779B97F4A7C15);
    let mut z = x;
    z = (z ^ (z >> 30)).wrapping_mul(0xBF58476D1CE4E5B9);
    z = (z ^ (z >> 27)).wrapping_mul(0x94D049BB133111EB);
    z ^ (z >> 31)
}

pub fn fnv1a(data: &[u8]) -> u64 {
    let mut h: u64 = 0xcbf29ce484222325;
    for b in data {
        h ^= *b as u64;
        h = h.wrapping_mul(0x100000001b3);
    }
    h
}
