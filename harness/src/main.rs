use std::time::Instant;

use fcverif::props::{self, Tier};
use fcverif::replay;
use fcverif::runner::*;
use serde_json::{json, Value};

#[global_allocator]
static GLOBAL: fcverif::alloc_count::Counting = fcverif::alloc_count::Counting;

fn arg(args: &[String], name: &str) -> Option<String> {
    args.iter().position(|a| a == name).and_then(|i| args.get(i + 1).cloned())
}

fn main() {
    let args: Vec<String> = std::env::args().collect();
    fcverif::util::install_panic_hook();
    let cmd = args.get(1).map(|s| s.as_str()).unwrap_or("");
    match cmd {
        "run" => {
            let prop = arg(&args, "--prop").expect("--prop");
            let tier = match arg(&args, "--tier").as_deref() {
                Some("thorough") => Tier::Thorough,
                _ => Tier::Quick,
            };
            let seed: u64 = arg(&args, "--seed").and_then(|s| s.parse().ok()).unwrap_or(0);
            let threads: usize = arg(&args, "--threads").and_then(|s| s.parse().ok()).unwrap_or(16);
            let out = arg(&args, "--out").expect("--out");
            let profile = arg(&args, "--profile").unwrap_or_else(|| "chk".into());
            let start = Instant::now();
            let Some(plan) = props::plan(&prop, tier, seed) else {
                eprintln!("unknown property {prop}");
                std::process::exit(3);
            };
            let nunits = plan.units.len();
            let partial = run_units(plan.units, threads, default_deadline(tier.name()));
            let wall = start.elapsed().as_secs_f64();
            let mut partial = partial;
            if partial.samples.is_empty() {
                if let Some(f) = partial.fallback_sample.take() {
                    partial.samples.push(f);
                }
            }
            let mut viols: Vec<Value> = Vec::new();
            for v in &partial.violations {
                viols.push(json!({
                    "property": v.property, "engine": v.engine, "spec": v.spec, "variant": v.variant,
                    "message": v.message, "signature": v.signature, "size": v.size, "profile": profile,
                    "case": v.case,
                }));
            }
            let classes: serde_json::Map<String, Value> =
                partial.classes.0.iter().map(|(k, v)| (k.clone(), json!(v))).collect();
            let per_unit: serde_json::Map<String, Value> =
                partial.per_unit.iter().map(|(k, v)| (k.clone(), json!(v))).collect();
            let doc = json!({
                "property_id": prop, "tier": tier.name(), "seed": seed, "profile": profile,
                "evaluations": partial.evaluations,
                "distinct_nontrivial": partial.nontrivial.len() as u64 + partial.nontrivial_enumerated,
                "rule": plan.rule,
                "assumptions": plan.assumptions,
                "samples": partial.samples,
                "classes": classes,
                "per_unit": per_unit,
                "units": nunits,
                "exhaustive_spaces": partial.exhaustive,
                "violations": viols,
                "incomplete": partial.incomplete,
                "notes": partial.notes,
                "wall_s": wall,
            });
            std::fs::write(&out, serde_json::to_string_pretty(&doc).unwrap()).expect("write out");
            eprintln!(
                "{prop} {} {profile}: {} evaluations, {} distinct non-trivial, {} violations, {:.1}s",
                tier.name(), partial.evaluations, partial.nontrivial.len() as u64 + partial.nontrivial_enumerated, partial.violations.len(), wall
            );
            if !partial.incomplete.is_empty() {
                std::process::exit(2);
            }
            std::process::exit(if partial.violations.is_empty() { 0 } else { 1 });
        }
        "replay" => {
            let file = arg(&args, "--file").expect("--file");
            let text = std::fs::read_to_string(&file).expect("read replay file");
            let doc: Value = serde_json::from_str(&text).expect("replay file is JSON");
            match replay::replay(&doc) {
                Ok(()) => {
                    eprintln!("replay: the case passes");
                    std::process::exit(0);
                }
                Err(m) => {
                    eprintln!("replay: the case fails: {m}");
                    let out = json!({"message": m});
                    if let Some(o) = arg(&args, "--out") {
                        let _ = std::fs::write(o, out.to_string());
                    }
                    std::process::exit(1);
                }
            }
        }
        "tape" => {
            // explain a raw fuzz input: decode, run, shrink, write violation records
            let target = arg(&args, "--target").expect("--target");
            let file = arg(&args, "--file").expect("--file");
            let out = arg(&args, "--out").expect("--out");
            let profile = arg(&args, "--profile").unwrap_or_else(|| "chk".into());
            let data = std::fs::read(&file).expect("read input");
            // decode exactly like the fuzz targets do
            fcverif::spec::LIGHT_GENERATORS.store(true, std::sync::atomic::Ordering::Relaxed);
            let mut viols: Vec<Value> = Vec::new();
            if let Err(v) = fcverif::fuzz_entry::run_target(&target, &data, true) {
                viols.push(json!({
                    "property": v.property, "engine": v.engine, "spec": v.spec, "variant": v.variant,
                    "message": v.message, "signature": v.signature, "size": v.size, "profile": profile,
                    "case": v.case,
                }));
            }
            std::fs::write(&out, json!({"violations": viols}).to_string()).expect("write out");
            std::process::exit(if viols.is_empty() { 0 } else { 1 });
        }
        _ => {
            eprintln!("usage: fcverif run --prop Cxx --tier quick|thorough --seed N --out FILE [--threads N] [--profile chk|wrap]\n       fcverif replay --file FILE");
            std::process::exit(3);
        }
    }
}
