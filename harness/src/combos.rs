//! Combinator specs: slices, options, results, tuples, consecutive index pairs, columns,
//! collapsing regions. They compose the same way the regions compose.

use std::marker::PhantomData;

use flatcontainer::impls::deduplicate::{CollapseSequence, ConsecutiveIndexPairs};
use flatcontainer::impls::tuple::{TupleABCRegion, TupleABRegion, TupleARegion};
use flatcontainer::{
    ColumnsRegion, IntoOwned, OptionRegion, Push, PushIter, Region, ReserveItems, ResultRegion,
    SliceRegion,
};

use crate::arr_dispatch;
use crate::leaves::{gen_vec, shrink_vec, Mirror, OffsetM, Owned, OwnedZst, Prim, Str};
use crate::spec::*;
use crate::tape::Tape;

fn oob_probe<T>(cx: &mut Cx, what: &str, len: usize, f: impl Fn(usize) -> T) -> Result<(), String> {
    if !cx.oob {
        return Ok(());
    }
    for i in [len, len + 1, len + 2, len + 7, usize::MAX] {
        cx.oob_probes += 1;
        if i == len && cx.has_successor {
            cx.oob_with_successor += 1;
        }
        let r = std::panic::catch_unwind(std::panic::AssertUnwindSafe(|| {
            let _x = f(i);
        }));
        if r.is_ok() {
            return Err(format!(
                "{what}: get({i}) on an item of length {len} returned a value instead of panicking{}",
                if cx.has_successor { " (the item has a successor in its region)" } else { "" }
            ));
        }
    }
    Ok(())
}

// ---------------------------------------------------------------------------------------------
// Slice
// ---------------------------------------------------------------------------------------------

#[derive(Default, Clone)]
pub struct SeqM<M> {
    pub n: usize,
    pub inner: M,
}

macro_rules! slice_spec {
    ($name:ident, $label:literal, [$($extra:tt)*], {$($reserve:tt)*}) => {
        pub struct $name<S, O = Vec<Idx<S>>>(PhantomData<(S, O)>);

        impl<S, O> Spec for $name<S, O>
        where
            S: Spec,
            O: IcKind<Idx<S>>,
            S::R: for<'a> Push<&'a Own<S>> + Push<Own<S>> + for<'a> Push<RI<'a, S>> $($extra)*,
        {
            type R = SliceRegion<S::R, O>;
            type V = Vec<S::V>;
            type M = SeqM<S::M>;
            const HEAP: bool = S::HEAP;
            const RESERVE_REGIONS: bool = S::RESERVE_REGIONS;
            const CODED: bool = S::CODED;
            const STRINGY: bool = S::STRINGY;
            const COLLAPSING: bool = S::COLLAPSING;
            const JSON_SAFE: bool = S::JSON_SAFE;
            const PLAIN_VEC: bool = S::PLAIN_VEC && <O as IcKind<Idx<S>>>::PLAIN_VEC;
            const SLICY: bool = true;
            fn name() -> String {
                if <O as IcKind<Idx<S>>>::NAME == "Vec" {
                    format!("{}<{}>", $label, S::name())
                } else {
                    format!("{}<{},{}>", $label, S::name(), <O as IcKind<Idx<S>>>::NAME)
                }
            }
            fn gen(t: &mut Tape, p: &Gp) -> Vec<S::V> {
                gen_vec(t, p, !S::CODED && !S::SLICY, S::gen)
            }
            fn shrink(v: &Vec<S::V>) -> Vec<Vec<S::V>> {
                let mut out = shrink_vec(v);
                for (i, x) in v.iter().enumerate().take(4) {
                    for y in S::shrink(x).into_iter().take(2) {
                        let mut w = v.clone();
                        w[i] = y;
                        out.push(w);
                    }
                }
                out
            }
            fn owned(v: &Vec<S::V>) -> Vec<Own<S>> {
                v.iter().map(S::owned).collect()
            }
            fn unowned(o: &Vec<Own<S>>) -> Vec<S::V> {
                o.iter().map(S::unowned).collect()
            }
            fn check<'a>(item: RI<'a, Self>, v: &Vec<S::V>, cx: &mut Cx) -> Result<(), String> {
                let n = v.len();
                if item.len() != n {
                    return Err(format!("slice len {} != pushed len {}", item.len(), n));
                }
                if item.is_empty() != (n == 0) {
                    return Err("slice is_empty disagrees with len".into());
                }
                let succ = cx.has_successor;
                for (i, x) in v.iter().enumerate() {
                    cx.gets += 1;
                    cx.has_successor = true;
                    S::check(item.get(i), x, cx).map_err(|e| format!("slice.get({i}): {e}"))?;
                }
                cx.has_successor = succ;
                oob_probe(cx, "ReadSlice", n, |i| {
                    let _ = item.get(i);
                })?;
                // iteration, bounded
                let mut it = item.iter();
                let mut count = 0usize;
                let mut mid = None;
                while let Some(x) = it.next() {
                    if count >= n {
                        return Err(format!("slice iteration yields more than len = {n} items"));
                    }
                    cx.has_successor = true;
                    S::check(x, &v[count], cx).map_err(|e| format!("slice.iter()[{count}]: {e}"))?;
                    count += 1;
                    if count == n / 2 {
                        mid = Some((it.clone(), count));
                    }
                }
                cx.has_successor = succ;
                if count != n {
                    return Err(format!("slice iteration yields {count} items, len = {n}"));
                }
                if let Some((it2, from)) = mid {
                    let mut c = from;
                    for x in it2.take(n + 1) {
                        if c >= n {
                            return Err("cloned slice iterator yields too many items".into());
                        }
                        cx.has_successor = true;
                        S::check(x, &v[c], cx).map_err(|e| format!("cloned slice iter [{c}]: {e}"))?;
                        c += 1;
                    }
                    cx.has_successor = succ;
                    if c != n {
                        return Err("cloned slice iterator yields too few items".into());
                    }
                }
                let c2 = item.into_iter().take(n + 1).count();
                if c2 != n {
                    return Err(format!("slice into_iter yields {c2} items, len = {n}"));
                }
                let o: Vec<Own<S>> = IntoOwned::into_owned(item);
                if o.len() != n {
                    return Err(format!("slice into_owned has {} items, pushed {n}", o.len()));
                }
                for (i, (a, b)) in o.iter().zip(v.iter()).enumerate() {
                    if S::unowned(a) != *b {
                        return Err(format!(
                            "slice into_owned[{i}] = {:?} != pushed {:?}",
                            S::unowned(a),
                            b
                        ));
                    }
                }
                Ok(())
            }
            fn push_via<K: Sink<Self::R>>(k: &mut K, v: &Vec<S::V>, f: &mut Forms) -> K::Out {
                const NAMES: &[&str] = &[
                    "&[T]", "Vec<T>", "&Vec<T>", "&&Vec<T>", "[T;N]", "&[T;N]", "&&[T;N]",
                    "ReadSlice(region)", "ReadSlice(borrowed)", "Vec<T>(spare capacity)",
                ];
                let o: Vec<Own<S>> = v.iter().map(S::owned).collect();
                match f.pick($label, NAMES) {
                    9 => {
                        let mut w: Vec<Own<S>> = Vec::with_capacity(o.len() * 2 + 7);
                        w.extend(o);
                        k.put(w)
                    }
                    0 => k.put(o.as_slice()),
                    1 => k.put(o),
                    2 => k.put(&o),
                    3 => k.put(&&o),
                    4 => arr_dispatch!(o, a => k.put(a), else => k.put(a)),
                    5 => arr_dispatch!(o, a => k.put(&a), else => k.put(&a)),
                    6 => arr_dispatch!(o, a => k.put(&&a), else => k.put(&&a)),
                    7 => {
                        let mut tmp = SliceRegion::<S::R, O>::default();
                        let _pad = tmp.push(o.as_slice());
                        let i = tmp.push(o.as_slice());
                        k.put(tmp.index(i))
                    }
                    _ => {
                        let b: RI<'_, Self> = IntoOwned::borrow_as(&o);
                        k.put(b)
                    }
                }
            }
            fn push_read<'a, K: Sink<Self::R>>(k: &mut K, item: RI<'a, Self>) -> K::Out {
                k.put(item)
            }
            fn push_owned_ref<'a, K: Sink<Self::R>>(k: &mut K, o: &'a Vec<Own<S>>, which: usize) -> K::Out {
                match which % 3 {
                    0 => {
                        let b: RI<'a, Self> = IntoOwned::borrow_as(o);
                        k.put(b)
                    }
                    1 => k.put(o),
                    _ => k.put(o.as_slice()),
                }
            }
            fn push_all_via<K: BatchSink<Self::R>>(k: &mut K, vs: &[Vec<S::V>], f: &mut Forms) {
                let os: Vec<Vec<Own<S>>> = vs.iter().map(|v| Self::owned(v)).collect();
                match f.pick(concat!($label, "(batch)"), &["&Vec<T>", "Vec<T>", "&[T]"]) {
                    0 => k.put_all(os.iter()),
                    1 => k.put_all(os.into_iter()),
                    _ => k.put_all(os.iter().map(|v| v.as_slice())),
                }
            }
            $($reserve)*
            fn idx_key(i: &(usize, usize), out: &mut String) {
                out.push_str(&format!("({},{})", i.0, i.1));
            }
            fn model_push(m: &mut SeqM<S::M>, v: &Vec<S::V>) -> Option<(usize, usize)> {
                let s = m.n;
                for x in v {
                    let _ = S::model_push(&mut m.inner, x);
                }
                m.n += v.len();
                Some((s, m.n))
            }
            fn model_merged() -> SeqM<S::M> {
                SeqM { n: 0, inner: S::model_merged() }
            }
            fn used_bounds(vs: &[&Vec<S::V>]) -> (usize, usize) {
                let elems: Vec<&S::V> = vs.iter().flat_map(|v| v.iter()).collect();
                let (lo, hi) = S::used_bounds(&elems);
                let mut m = S::M::default();
                let mut idxs = Vec::with_capacity(elems.len());
                let mut predictable = true;
                for e in &elems {
                    match S::model_push(&mut m, e) {
                        Some(i) => idxs.push(i),
                        None => predictable = false,
                    }
                }
                let (ilo, ihi) = if predictable {
                    <O as IcKind<Idx<S>>>::used_bounds(&idxs)
                } else {
                    (0, elems.len() * std::mem::size_of::<Idx<S>>().max(8))
                };
                (lo + ilo, hi.saturating_add(ihi))
            }
            fn accepts(trained: &[&Vec<S::V>], v: &Vec<S::V>) -> bool {
                if !S::CODED {
                    return true;
                }
                let elems: Vec<&S::V> = trained.iter().flat_map(|v| v.iter()).collect();
                v.iter().all(|x| S::accepts(&elems, x))
            }
            fn cleared_used_max(ever: &[&Vec<S::V>]) -> usize {
                let elems: Vec<&S::V> = ever.iter().flat_map(|v| v.iter()).collect();
                S::cleared_used_max(&elems)
            }
            fn classes(v: &Vec<S::V>, out: &mut Vec<&'static str>) {
                if v.is_empty() {
                    out.push("empty-slice");
                }
                if v.len() > 16 {
                    out.push("long-slice");
                }
                let mut inner = Vec::new();
                for x in v {
                    S::classes(x, &mut inner);
                }
                if inner.contains(&"empty-slice") && v.len() > 1 {
                    out.push("ragged-nested");
                }
                inner.sort();
                inner.dedup();
                out.extend(inner);
            }
            fn payload(v: &Vec<S::V>) -> usize {
                v.iter().map(S::payload).sum()
            }
        }
    };
}

slice_spec!(Slice, "Slice", [+ for<'a> ReserveItems<&'a Own<S>> + for<'a> ReserveItems<RI<'a, S>>], {
    fn reserve_items<K: RSink<Self::R>>(k: &mut K, vs: &[Vec<S::V>], f: &mut Forms) -> bool {
        let os: Vec<Vec<Own<S>>> = vs.iter().map(|v| Self::owned(v)).collect();
        match f.pick("Slice(reserve)", &["&Vec<T>", "&[T]", "ReadSlice(borrowed)"]) {
            0 => k.reserve(os.iter()),
            1 => k.reserve(os.iter().map(|v| v.as_slice())),
            _ => k.reserve(os.iter().map(|o| {
                let b: RI<'_, Self> = IntoOwned::borrow_as(o);
                b
            })),
        }
        true
    }
});
slice_spec!(SliceN, "Slice", [], {});

// ---------------------------------------------------------------------------------------------
// Option
// ---------------------------------------------------------------------------------------------

macro_rules! option_spec {
    ($name:ident, [$($extra:tt)*], {$($reserve:tt)*}) => {
        pub struct $name<S>(PhantomData<S>);

        impl<S> Spec for $name<S>
        where
            S: Spec,
            S::R: for<'a> Push<&'a Own<S>> + Push<Own<S>> + for<'a> Push<RI<'a, S>> $($extra)*,
        {
            type R = OptionRegion<S::R>;
            type V = Option<S::V>;
            type M = S::M;
            const HEAP: bool = S::HEAP;
            const RESERVE_REGIONS: bool = S::RESERVE_REGIONS;
            const CODED: bool = S::CODED;
            const STRINGY: bool = S::STRINGY;
            const COLLAPSING: bool = S::COLLAPSING;
            const JSON_SAFE: bool = S::JSON_SAFE && !S::UNIT_INDEX;
            const PLAIN_VEC: bool = S::PLAIN_VEC;
            const SLICY: bool = S::SLICY;
            fn name() -> String {
                format!("Option<{}>", S::name())
            }
            fn gen(t: &mut Tape, p: &Gp) -> Option<S::V> {
                if t.chance(64) { None } else { Some(S::gen(t, p)) }
            }
            fn shrink(v: &Option<S::V>) -> Vec<Option<S::V>> {
                match v {
                    None => vec![],
                    Some(x) => {
                        let mut out = vec![None];
                        out.extend(S::shrink(x).into_iter().map(Some));
                        out
                    }
                }
            }
            fn owned(v: &Option<S::V>) -> Option<Own<S>> {
                v.as_ref().map(S::owned)
            }
            fn unowned(o: &Option<Own<S>>) -> Option<S::V> {
                o.as_ref().map(S::unowned)
            }
            fn check<'a>(item: RI<'a, Self>, v: &Option<S::V>, cx: &mut Cx) -> Result<(), String> {
                match (item, v) {
                    (None, None) => Ok(()),
                    (Some(i), Some(x)) => S::check(i, x, cx).map_err(|e| format!("Some: {e}")),
                    (None, Some(x)) => Err(format!("option reads None, pushed Some({:?})", x)),
                    (Some(_), None) => Err("option reads Some, pushed None".into()),
                }
            }
            fn push_via<K: Sink<Self::R>>(k: &mut K, v: &Option<S::V>, f: &mut Forms) -> K::Out {
                const NAMES: &[&str] = &[
                    "&Option<T>", "Option<T>", "Option<&T>", "Option<Read>(region)",
                    "Option<Read>(borrowed)",
                ];
                let o: Option<Own<S>> = v.as_ref().map(S::owned);
                match f.pick("Option", NAMES) {
                    0 => k.put(&o),
                    1 => k.put(o),
                    2 => k.put(o.as_ref()),
                    3 => {
                        let mut tmp = OptionRegion::<S::R>::default();
                        let i = tmp.push(&o);
                        k.put(tmp.index(i))
                    }
                    _ => {
                        let b: RI<'_, Self> = IntoOwned::borrow_as(&o);
                        k.put(b)
                    }
                }
            }
            fn push_read<'a, K: Sink<Self::R>>(k: &mut K, item: RI<'a, Self>) -> K::Out {
                k.put(item)
            }
            fn push_all_via<K: BatchSink<Self::R>>(k: &mut K, vs: &[Option<S::V>], f: &mut Forms) {
                let os: Vec<Option<Own<S>>> = vs.iter().map(|v| Self::owned(v)).collect();
                match f.pick("Option(batch)", &["&Option<T>", "Option<T>"]) {
                    0 => k.put_all(os.iter()),
                    _ => k.put_all(os.into_iter()),
                }
            }
            $($reserve)*
            fn idx_key(i: &Option<Idx<S>>, out: &mut String) {
                match i {
                    None => out.push_str("None"),
                    Some(x) => {
                        out.push_str("Some(");
                        S::idx_key(x, out);
                        out.push(')');
                    }
                }
            }
            fn model_push(m: &mut S::M, v: &Option<S::V>) -> Option<Option<Idx<S>>> {
                match v {
                    None => Some(None),
                    Some(x) => S::model_push(m, x).map(Some),
                }
            }
            fn model_merged() -> S::M {
                S::model_merged()
            }
            fn used_bounds(vs: &[&Option<S::V>]) -> (usize, usize) {
                let somes: Vec<&S::V> = vs.iter().filter_map(|v| v.as_ref()).collect();
                S::used_bounds(&somes)
            }
            fn accepts(trained: &[&Option<S::V>], v: &Option<S::V>) -> bool {
                match v {
                    None => true,
                    Some(x) => {
                        let somes: Vec<&S::V> = trained.iter().filter_map(|v| v.as_ref()).collect();
                        S::accepts(&somes, x)
                    }
                }
            }
            fn cleared_used_max(ever: &[&Option<S::V>]) -> usize {
                let somes: Vec<&S::V> = ever.iter().filter_map(|v| v.as_ref()).collect();
                S::cleared_used_max(&somes)
            }
            fn stores_nothing(prev: Option<&Option<S::V>>, v: &Option<S::V>) -> Option<bool> {
                match v {
                    None => Some(true),
                    Some(x) => match prev {
                        Some(Some(p)) => S::stores_nothing(Some(p), x),
                        _ => None,
                    },
                }
            }
            fn classes(v: &Option<S::V>, out: &mut Vec<&'static str>) {
                match v {
                    None => out.push("none"),
                    Some(x) => {
                        out.push("some");
                        S::classes(x, out)
                    }
                }
            }
            fn payload(v: &Option<S::V>) -> usize {
                v.as_ref().map(S::payload).unwrap_or(0)
            }
        }
    };
}

option_spec!(Opt, [+ for<'a> ReserveItems<&'a Own<S>>], {
    fn reserve_items<K: RSink<Self::R>>(k: &mut K, vs: &[Option<S::V>], f: &mut Forms) -> bool {
        let os: Vec<Option<Own<S>>> = vs.iter().map(|v| Self::owned(v)).collect();
        match f.pick("Option(reserve)", &["&Option<T>", "Option<&T>"]) {
            0 => k.reserve(os.iter()),
            _ => k.reserve(os.iter().map(|o| o.as_ref())),
        }
        true
    }
});
option_spec!(OptN, [], {});

// ---------------------------------------------------------------------------------------------
// Result
// ---------------------------------------------------------------------------------------------

macro_rules! result_spec {
    ($name:ident, [$($extra_a:tt)*], [$($extra_b:tt)*], {$($reserve:tt)*}) => {
        pub struct $name<A, B>(PhantomData<(A, B)>);

        impl<A, B> Spec for $name<A, B>
        where
            A: Spec,
            B: Spec,
            A::R: for<'a> Push<&'a Own<A>> + Push<Own<A>> + for<'a> Push<RI<'a, A>> $($extra_a)*,
            B::R: for<'a> Push<&'a Own<B>> + Push<Own<B>> + for<'a> Push<RI<'a, B>> $($extra_b)*,
        {
            type R = ResultRegion<A::R, B::R>;
            type V = Result<A::V, B::V>;
            type M = (A::M, B::M);
            const HEAP: bool = A::HEAP && B::HEAP;
            const RESERVE_REGIONS: bool = A::RESERVE_REGIONS && B::RESERVE_REGIONS;
            const CODED: bool = A::CODED || B::CODED;
            const STRINGY: bool = A::STRINGY || B::STRINGY;
            const COLLAPSING: bool = A::COLLAPSING || B::COLLAPSING;
            const JSON_SAFE: bool = A::JSON_SAFE && B::JSON_SAFE;
            const PLAIN_VEC: bool = A::PLAIN_VEC && B::PLAIN_VEC;
            const SLICY: bool = A::SLICY || B::SLICY;
            fn name() -> String {
                format!("Result<{},{}>", A::name(), B::name())
            }
            fn gen(t: &mut Tape, p: &Gp) -> Result<A::V, B::V> {
                if t.bool() { Err(B::gen(t, p)) } else { Ok(A::gen(t, p)) }
            }
            fn shrink(v: &Result<A::V, B::V>) -> Vec<Result<A::V, B::V>> {
                match v {
                    Ok(x) => A::shrink(x).into_iter().map(Ok).collect(),
                    Err(x) => B::shrink(x).into_iter().map(Err).collect(),
                }
            }
            fn owned(v: &Result<A::V, B::V>) -> Result<Own<A>, Own<B>> {
                match v {
                    Ok(x) => Ok(A::owned(x)),
                    Err(x) => Err(B::owned(x)),
                }
            }
            fn unowned(o: &Result<Own<A>, Own<B>>) -> Result<A::V, B::V> {
                match o {
                    Ok(x) => Ok(A::unowned(x)),
                    Err(x) => Err(B::unowned(x)),
                }
            }
            fn check<'a>(item: RI<'a, Self>, v: &Self::V, cx: &mut Cx) -> Result<(), String> {
                match (item, v) {
                    (Ok(i), Ok(x)) => A::check(i, x, cx).map_err(|e| format!("Ok: {e}")),
                    (Err(i), Err(x)) => B::check(i, x, cx).map_err(|e| format!("Err: {e}")),
                    (Ok(_), Err(x)) => Err(format!("result reads Ok, pushed Err({:?})", x)),
                    (Err(_), Ok(x)) => Err(format!("result reads Err, pushed Ok({:?})", x)),
                }
            }
            fn push_via<K: Sink<Self::R>>(k: &mut K, v: &Self::V, f: &mut Forms) -> K::Out {
                const NAMES: &[&str] = &[
                    "&Result<T,E>", "Result<T,E>", "Result<&T,&E>", "Result<Read>(region)",
                    "Result<Read>(borrowed)",
                ];
                let o: Result<Own<A>, Own<B>> = Self::owned(v);
                match f.pick("Result", NAMES) {
                    0 => k.put(&o),
                    1 => k.put(o),
                    2 => k.put(o.as_ref()),
                    3 => {
                        let mut tmp = ResultRegion::<A::R, B::R>::default();
                        let i = tmp.push(&o);
                        k.put(tmp.index(i))
                    }
                    _ => {
                        let b: RI<'_, Self> = IntoOwned::borrow_as(&o);
                        k.put(b)
                    }
                }
            }
            fn push_read<'a, K: Sink<Self::R>>(k: &mut K, item: RI<'a, Self>) -> K::Out {
                k.put(item)
            }
            fn push_all_via<K: BatchSink<Self::R>>(k: &mut K, vs: &[Self::V], f: &mut Forms) {
                let os: Vec<Result<Own<A>, Own<B>>> = vs.iter().map(|v| Self::owned(v)).collect();
                match f.pick("Result(batch)", &["&Result<T,E>", "Result<T,E>"]) {
                    0 => k.put_all(os.iter()),
                    _ => k.put_all(os.into_iter()),
                }
            }
            $($reserve)*
            fn idx_key(i: &Result<Idx<A>, Idx<B>>, out: &mut String) {
                match i {
                    Ok(x) => {
                        out.push_str("Ok(");
                        A::idx_key(x, out);
                    }
                    Err(x) => {
                        out.push_str("Err(");
                        B::idx_key(x, out);
                    }
                }
                out.push(')');
            }
            fn model_push(m: &mut Self::M, v: &Self::V) -> Option<Result<Idx<A>, Idx<B>>> {
                match v {
                    Ok(x) => A::model_push(&mut m.0, x).map(Ok),
                    Err(x) => B::model_push(&mut m.1, x).map(Err),
                }
            }
            fn model_merged() -> Self::M {
                (A::model_merged(), B::model_merged())
            }
            fn used_bounds(vs: &[&Self::V]) -> (usize, usize) {
                let oks: Vec<&A::V> = vs.iter().filter_map(|v| v.as_ref().ok()).collect();
                let errs: Vec<&B::V> = vs.iter().filter_map(|v| v.as_ref().err()).collect();
                let (a, b) = A::used_bounds(&oks);
                let (c, d) = B::used_bounds(&errs);
                (a + c, b.saturating_add(d))
            }
            fn accepts(trained: &[&Self::V], v: &Self::V) -> bool {
                match v {
                    Ok(x) => {
                        let oks: Vec<&A::V> = trained.iter().filter_map(|v| v.as_ref().ok()).collect();
                        A::accepts(&oks, x)
                    }
                    Err(x) => {
                        let errs: Vec<&B::V> =
                            trained.iter().filter_map(|v| v.as_ref().err()).collect();
                        B::accepts(&errs, x)
                    }
                }
            }
            fn cleared_used_max(ever: &[&Self::V]) -> usize {
                let oks: Vec<&A::V> = ever.iter().filter_map(|v| v.as_ref().ok()).collect();
                let errs: Vec<&B::V> = ever.iter().filter_map(|v| v.as_ref().err()).collect();
                A::cleared_used_max(&oks) + B::cleared_used_max(&errs)
            }
            fn classes(v: &Self::V, out: &mut Vec<&'static str>) {
                match v {
                    Ok(x) => {
                        out.push("ok");
                        A::classes(x, out)
                    }
                    Err(x) => {
                        out.push("err");
                        B::classes(x, out)
                    }
                }
            }
            fn payload(v: &Self::V) -> usize {
                match v {
                    Ok(x) => A::payload(x),
                    Err(x) => B::payload(x),
                }
            }
        }
    };
}

result_spec!(Res,
    [+ for<'a> ReserveItems<&'a Own<A>>],
    [+ for<'a> ReserveItems<&'a Own<B>>], {
    fn reserve_items<K: RSink<Self::R>>(k: &mut K, vs: &[Self::V], f: &mut Forms) -> bool {
        let os: Vec<Result<Own<A>, Own<B>>> = vs.iter().map(|v| Self::owned(v)).collect();
        match f.pick("Result(reserve)", &["&Result<T,E>", "Result<&T,&E>"]) {
            0 => k.reserve(os.iter()),
            _ => k.reserve(os.iter().map(|o| o.as_ref())),
        }
        true
    }
});
result_spec!(ResN, [], [], {});

// ---------------------------------------------------------------------------------------------
// Tuples
// ---------------------------------------------------------------------------------------------

macro_rules! tuple_spec {
    ($name:ident, $region:ident, $label:literal, $has_reserve:tt, $rsv:ident, $(($T:ident, $i:tt)),+) => {
        pub struct $name<$($T),+>(PhantomData<($($T,)+)>);

        #[allow(non_snake_case)]
        impl<$($T),+> Spec for $name<$($T),+>
        where
            $($T: Spec,)+
            $($T::R: for<'a> Push<&'a Own<$T>> + Push<Own<$T>> + for<'a> Push<RI<'a, $T>>
                + $rsv<Own<$T>>,)+
        {
            type R = $region<$($T::R),+>;
            type V = ($($T::V,)+);
            type M = ($($T::M,)+);
            const HEAP: bool = true $(&& $T::HEAP)+;
            const RESERVE_REGIONS: bool = true $(&& $T::RESERVE_REGIONS)+;
            const CODED: bool = false $(|| $T::CODED)+;
            const STRINGY: bool = false $(|| $T::STRINGY)+;
            const COLLAPSING: bool = false $(|| $T::COLLAPSING)+;
            const JSON_SAFE: bool = true $(&& $T::JSON_SAFE)+;
            const PLAIN_VEC: bool = true $(&& $T::PLAIN_VEC)+;
            const SLICY: bool = false $(|| $T::SLICY)+;
            fn name() -> String {
                let parts: Vec<String> = vec![$($T::name()),+];
                format!("{}<{}>", $label, parts.join(","))
            }
            fn gen(t: &mut Tape, p: &Gp) -> Self::V {
                ($($T::gen(t, p),)+)
            }
            fn shrink(v: &Self::V) -> Vec<Self::V> {
                let mut out = Vec::new();
                $(
                    for y in $T::shrink(&v.$i).into_iter().take(3) {
                        let mut w = v.clone();
                        w.$i = y;
                        out.push(w);
                    }
                )+
                out
            }
            fn owned(v: &Self::V) -> Own<Self> {
                ($($T::owned(&v.$i),)+)
            }
            fn unowned(o: &Own<Self>) -> Self::V {
                ($($T::unowned(&o.$i),)+)
            }
            fn check<'a>(item: RI<'a, Self>, v: &Self::V, cx: &mut Cx) -> Result<(), String> {
                $(
                    $T::check(item.$i, &v.$i, cx).map_err(|e| format!("tuple.{}: {e}", $i))?;
                )+
                Ok(())
            }
            fn push_via<K: Sink<Self::R>>(k: &mut K, v: &Self::V, f: &mut Forms) -> K::Out {
                const NAMES: &[&str] =
                    &["&(A,..)", "(A,..)", "(&A,..)", "Read(region)", "Read(borrowed)"];
                let o: Own<Self> = Self::owned(v);
                match f.pick($label, NAMES) {
                    0 => k.put(&o),
                    1 => k.put(o),
                    2 => k.put(($(&o.$i,)+)),
                    3 => {
                        let mut tmp = <$region<$($T::R),+>>::default();
                        let i = tmp.push(&o);
                        k.put(tmp.index(i))
                    }
                    _ => {
                        let b: RI<'_, Self> = IntoOwned::borrow_as(&o);
                        k.put(b)
                    }
                }
            }
            fn push_read<'a, K: Sink<Self::R>>(k: &mut K, item: RI<'a, Self>) -> K::Out {
                k.put(item)
            }
            fn push_all_via<K: BatchSink<Self::R>>(k: &mut K, vs: &[Self::V], f: &mut Forms) {
                let os: Vec<Own<Self>> = vs.iter().map(|v| Self::owned(v)).collect();
                match f.pick(concat!($label, "(batch)"), &["&(A,..)", "(A,..)"]) {
                    0 => k.put_all(os.iter()),
                    _ => k.put_all(os.into_iter()),
                }
            }
            fn reserve_items<K: RSink<Self::R>>(k: &mut K, vs: &[Self::V], _f: &mut Forms) -> bool {
                tuple_spec!(@reserve $has_reserve, k, vs, Self)
            }
            fn idx_key(i: &Idx<Self>, out: &mut String) {
                out.push('(');
                $(
                    $T::idx_key(&i.$i, out);
                    out.push(',');
                )+
                out.push(')');
            }
            fn model_push(m: &mut Self::M, v: &Self::V) -> Option<Idx<Self>> {
                // advance every field's model even when one of them is unpredictable
                let r = ($($T::model_push(&mut m.$i, &v.$i),)+);
                Some(($(r.$i?,)+))
            }
            fn model_merged() -> Self::M {
                ($($T::model_merged(),)+)
            }
            fn used_bounds(vs: &[&Self::V]) -> (usize, usize) {
                let mut lo = 0usize;
                let mut hi = 0usize;
                $(
                    let col: Vec<&$T::V> = vs.iter().map(|v| &v.$i).collect();
                    let (a, b) = $T::used_bounds(&col);
                    lo += a;
                    hi = hi.saturating_add(b);
                )+
                (lo, hi)
            }
            fn accepts(trained: &[&Self::V], v: &Self::V) -> bool {
                $(
                    {
                        let col: Vec<&$T::V> = trained.iter().map(|v| &v.$i).collect();
                        if !$T::accepts(&col, &v.$i) {
                            return false;
                        }
                    }
                )+
                true
            }
            fn cleared_used_max(ever: &[&Self::V]) -> usize {
                let mut s = 0usize;
                $(
                    let col: Vec<&$T::V> = ever.iter().map(|v| &v.$i).collect();
                    s += $T::cleared_used_max(&col);
                )+
                s
            }
            fn stores_nothing(prev: Option<&Self::V>, v: &Self::V) -> Option<bool> {
                let mut all = true;
                $(
                    match $T::stores_nothing(prev.map(|p| &p.$i), &v.$i) {
                        Some(true) => {}
                        Some(false) => all = false,
                        None => return None,
                    }
                )+
                Some(all)
            }
            fn classes(v: &Self::V, out: &mut Vec<&'static str>) {
                $($T::classes(&v.$i, out);)+
            }
            fn payload(v: &Self::V) -> usize {
                0 $(+ $T::payload(&v.$i))+
            }
        }
    };
    (@reserve yes, $k:ident, $vs:ident, $Self:ident) => {{
        let os: Vec<Own<$Self>> = $vs.iter().map(|v| $Self::owned(v)).collect();
        $k.reserve(os.iter());
        true
    }};
    (@reserve no, $k:ident, $vs:ident, $Self:ident) => {{
        let _ = ($k, $vs);
        false
    }};
}

/// `R: HasRsv<O>` == `R: for<'a> ReserveItems<&'a O>` (usable as a macro parameter).
pub trait HasRsv<O>: for<'a> ReserveItems<&'a O> {}
impl<R, O> HasRsv<O> for R where R: for<'a> ReserveItems<&'a O> {}
/// No requirement.
pub trait NoRsv<O> {}
impl<R, O> NoRsv<O> for R {}

tuple_spec!(Tup1, TupleARegion, "Tuple1", yes, HasRsv, (A, 0));
tuple_spec!(Tup2, TupleABRegion, "Tuple2", yes, HasRsv, (A, 0), (B, 1));
tuple_spec!(Tup3, TupleABCRegion, "Tuple3", yes, HasRsv, (A, 0), (B, 1), (C, 2));
tuple_spec!(Tup2N, TupleABRegion, "Tuple2", no, NoRsv, (A, 0), (B, 1));
tuple_spec!(Tup3N, TupleABCRegion, "Tuple3", no, NoRsv, (A, 0), (B, 1), (C, 2));

// ---------------------------------------------------------------------------------------------
// ConsecutiveIndexPairs
// ---------------------------------------------------------------------------------------------

pub struct Cip<S, O = flatcontainer::impls::index::IndexOptimized>(PhantomData<(S, O)>);

struct CipSink<'k, K, SR, O>(&'k mut K, PhantomData<(SR, O)>);
impl<'k, K, SR, O> Sink<SR> for CipSink<'k, K, SR, O>
where
    SR: Region<Index = (usize, usize)>,
    O: IcKind<usize>,
    K: Sink<ConsecutiveIndexPairs<SR, O>>,
{
    type Out = K::Out;
    fn put<T>(&mut self, t: T) -> K::Out
    where
        SR: Push<T>,
    {
        self.0.put(t)
    }
}
struct CipBatch<'k, K, SR, O>(&'k mut K, PhantomData<(SR, O)>);
impl<'k, K, SR, O> BatchSink<SR> for CipBatch<'k, K, SR, O>
where
    SR: Region<Index = (usize, usize)>,
    O: IcKind<usize>,
    K: BatchSink<ConsecutiveIndexPairs<SR, O>>,
{
    fn put_all<T, I: Iterator<Item = T>>(&mut self, it: I)
    where
        SR: Push<T>,
    {
        self.0.put_all(it)
    }
}
struct CipRSink<'k, K, SR, O>(&'k mut K, PhantomData<(SR, O)>);
impl<'k, K, SR, O> RSink<SR> for CipRSink<'k, K, SR, O>
where
    SR: Region<Index = (usize, usize)>,
    O: IcKind<usize>,
    K: RSink<ConsecutiveIndexPairs<SR, O>>,
{
    fn reserve<T, I: Iterator<Item = T> + Clone>(&mut self, it: I)
    where
        SR: ReserveItems<T>,
    {
        self.0.reserve(it)
    }
}

impl<S, O> Spec for Cip<S, O>
where
    S: Spec,
    S::R: Region<Index = (usize, usize)>,
    O: IcKind<usize>,
{
    type R = ConsecutiveIndexPairs<S::R, O>;
    type V = S::V;
    type M = SeqM<S::M>;
    const HEAP: bool = S::HEAP;
    const RESERVE_REGIONS: bool = S::RESERVE_REGIONS;
    const CODED: bool = S::CODED;
    const STRINGY: bool = S::STRINGY;
    const COLLAPSING: bool = S::COLLAPSING;
    const JSON_SAFE: bool = S::JSON_SAFE;
    // reserve_items/merge_regions of a pair index do not size its offset list: outside C17's list
    const PLAIN_VEC: bool = false;
    const SLICY: bool = S::SLICY;
    fn name() -> String {
        format!("Cip<{},{}>", S::name(), <O as IcKind<usize>>::NAME)
    }
    fn gen(t: &mut Tape, p: &Gp) -> S::V {
        S::gen(t, p)
    }
    fn shrink(v: &S::V) -> Vec<S::V> {
        S::shrink(v)
    }
    fn owned(v: &S::V) -> Own<S> {
        S::owned(v)
    }
    fn unowned(o: &Own<S>) -> S::V {
        S::unowned(o)
    }
    fn check<'a>(item: RI<'a, Self>, v: &S::V, cx: &mut Cx) -> Result<(), String> {
        S::check(item, v, cx)
    }
    fn push_via<K: Sink<Self::R>>(k: &mut K, v: &S::V, f: &mut Forms) -> K::Out {
        S::push_via(&mut CipSink::<K, S::R, O>(k, PhantomData), v, f)
    }
    fn push_read<'a, K: Sink<Self::R>>(k: &mut K, item: RI<'a, Self>) -> K::Out {
        S::push_read(&mut CipSink::<K, S::R, O>(k, PhantomData), item)
    }
    fn push_owned_ref<'a, K: Sink<Self::R>>(k: &mut K, o: &'a Own<Self>, which: usize) -> K::Out {
        S::push_owned_ref(&mut CipSink::<K, S::R, O>(k, PhantomData), o, which)
    }
    fn push_all_via<K: BatchSink<Self::R>>(k: &mut K, vs: &[S::V], f: &mut Forms) {
        S::push_all_via(&mut CipBatch::<K, S::R, O>(k, PhantomData), vs, f)
    }
    fn reserve_items<K: RSink<Self::R>>(k: &mut K, vs: &[S::V], f: &mut Forms) -> bool {
        S::reserve_items(&mut CipRSink::<K, S::R, O>(k, PhantomData), vs, f)
    }
    fn idx_key(i: &usize, out: &mut String) {
        out.push_str(&i.to_string());
    }
    fn model_push(m: &mut SeqM<S::M>, v: &S::V) -> Option<usize> {
        let _ = S::model_push(&mut m.inner, v);
        let i = m.n;
        m.n += 1;
        Some(i)
    }
    fn model_merged() -> SeqM<S::M> {
        SeqM { n: 0, inner: S::model_merged() }
    }
    fn admissible(m: &SeqM<S::M>, v: &S::V) -> bool {
        S::admissible(&m.inner, v)
    }
    fn used_bounds(vs: &[&S::V]) -> (usize, usize) {
        let (lo, hi) = S::used_bounds(vs);
        let mut m = S::M::default();
        let mut offs = vec![0usize];
        let mut predictable = true;
        for v in vs {
            match S::model_push(&mut m, v) {
                Some(i) => offs.push(i.1),
                None => predictable = false,
            }
        }
        let (ilo, ihi) = if predictable {
            <O as IcKind<usize>>::used_bounds(&offs)
        } else {
            (0, (vs.len() + 1) * 8)
        };
        (lo + ilo, hi.saturating_add(ihi))
    }
    fn accepts(trained: &[&S::V], v: &S::V) -> bool {
        S::accepts(trained, v)
    }
    fn cleared_used_max(ever: &[&S::V]) -> usize {
        S::cleared_used_max(ever) + <O as IcKind<usize>>::used_bounds(&[0]).1
    }
    fn classes(v: &S::V, out: &mut Vec<&'static str>) {
        S::classes(v, out)
    }
    fn payload(v: &S::V) -> usize {
        S::payload(v)
    }
}

// ---------------------------------------------------------------------------------------------
// Columns
// ---------------------------------------------------------------------------------------------

pub struct Columns<S, O = flatcontainer::impls::index::IndexOptimized>(PhantomData<(S, O)>);

#[derive(Default, Clone)]
pub struct ColsM<M> {
    pub rows: usize,
    pub cols: Vec<M>,
    pub merged: bool,
}

impl<S, O> Spec for Columns<S, O>
where
    S: Spec,
    O: IcKind<usize>,
    S::R: for<'a> Push<&'a Own<S>> + Push<Own<S>> + for<'a> Push<RI<'a, S>>,
{
    type R = ColumnsRegion<S::R, O>;
    type V = Vec<S::V>;
    type M = ColsM<S::M>;
    const HEAP: bool = S::HEAP;
    const RESERVE_REGIONS: bool = S::RESERVE_REGIONS;
    const CODED: bool = S::CODED;
    const STRINGY: bool = S::STRINGY;
    const COLLAPSING: bool = S::COLLAPSING;
    const JSON_SAFE: bool = S::JSON_SAFE;
    // creates column regions on demand: not part of the zero-allocation claim
    const PLAIN_VEC: bool = false;
    const SLICY: bool = true;
    fn name() -> String {
        format!("Columns<{},{}>", S::name(), <O as IcKind<usize>>::NAME)
    }
    fn gen(t: &mut Tape, p: &Gp) -> Vec<S::V> {
        let n = if !p.small && p.depth == 0 && !light() && t.chance(2) {
            // rarely: a row around 2^8 cells wide (hundreds of column regions)
            [255usize, 256, 257, 300][t.below(4)]
        } else if t.chance(20) {
            9 + t.below(8)
        } else {
            t.below(if p.small { 4 } else { 9 })
        };
        let q = p.deeper();
        (0..n).map(|_| S::gen(t, &q)).collect()
    }
    fn shrink(v: &Vec<S::V>) -> Vec<Vec<S::V>> {
        shrink_vec(v)
    }
    fn owned(v: &Vec<S::V>) -> Vec<Own<S>> {
        v.iter().map(S::owned).collect()
    }
    fn unowned(o: &Vec<Own<S>>) -> Vec<S::V> {
        o.iter().map(S::unowned).collect()
    }
    fn check<'a>(item: RI<'a, Self>, v: &Vec<S::V>, cx: &mut Cx) -> Result<(), String> {
        let n = v.len();
        if item.len() != n {
            return Err(format!("row len {} != pushed len {}", item.len(), n));
        }
        if item.is_empty() != (n == 0) {
            return Err("row is_empty disagrees with len".into());
        }
        let succ = cx.has_successor;
        cx.has_successor = false;
        for (i, x) in v.iter().enumerate() {
            cx.gets += 1;
            S::check(item.get(i), x, cx).map_err(|e| format!("row.get({i}): {e}"))?;
        }
        cx.has_successor = succ;
        oob_probe(cx, "ReadColumns", n, |i| {
            let _ = item.get(i);
        })?;
        cx.has_successor = false;
        let it = (&item).into_iter();
        let (lo, hi) = it.size_hint();
        if lo > n || hi.map(|h| h < n).unwrap_or(false) {
            return Err(format!("row iterator size_hint ({lo},{hi:?}) invalid for len {n}"));
        }
        if it.len() != n {
            return Err(format!("row iterator ExactSizeIterator::len {} != {n}", it.len()));
        }
        let mut count = 0usize;
        for x in it.take(n + 1) {
            if count >= n {
                return Err(format!("row iteration yields more than len = {n} items"));
            }
            S::check(x, &v[count], cx).map_err(|e| format!("row.iter()[{count}]: {e}"))?;
            count += 1;
        }
        if count != n {
            return Err(format!("row iteration yields {count} items, len = {n}"));
        }
        let c2 = item.iter().take(n + 1).count();
        if c2 != n {
            return Err(format!("row iter() yields {c2} items, len = {n}"));
        }
        cx.has_successor = succ;
        let o: Vec<Own<S>> = IntoOwned::into_owned(item);
        if o.len() != n {
            return Err(format!("row into_owned has {} cells, pushed {n}", o.len()));
        }
        for (i, (a, b)) in o.iter().zip(v.iter()).enumerate() {
            if S::unowned(a) != *b {
                return Err(format!("row into_owned[{i}] = {:?} != pushed {:?}", S::unowned(a), b));
            }
        }
        Ok(())
    }
    fn push_via<K: Sink<Self::R>>(k: &mut K, v: &Vec<S::V>, f: &mut Forms) -> K::Out {
        const NAMES: &[&str] = &[
            "&Vec<T>", "Vec<T>", "&[T]", "[T;N]", "&[T;N]", "PushIter<Vec<T>>",
            "PushIter<slice::Iter>", "ReadColumns(region)", "ReadColumns(borrowed)",
            "Vec<T>(spare capacity)", "PushIter<ReadSlice(region)>", "PushIter<ReadSliceIter(borrowed)>",
        ];
        let o: Vec<Own<S>> = v.iter().map(S::owned).collect();
        match f.pick("Columns", NAMES) {
            10 => {
                // a slice read from a slice region (not its first item), wrapped as an iterator
                let mut tmp = flatcontainer::SliceRegion::<S::R>::default();
                let _pad = tmp.push(&o);
                let _pad = tmp.push(&o);
                let i = tmp.push(&o);
                k.put(PushIter(tmp.index(i)))
            }
            11 => {
                let b: flatcontainer::impls::slice::ReadSlice<'_, S::R> = IntoOwned::borrow_as(&o);
                k.put(PushIter(b.iter()))
            }
            9 => {
                let mut w: Vec<Own<S>> = Vec::with_capacity(o.len() * 2 + 7);
                w.extend(o);
                k.put(w)
            }
            0 => k.put(&o),
            1 => k.put(o),
            2 => k.put(o.as_slice()),
            3 => arr_dispatch!(o, a => k.put(a), else => k.put(a)),
            4 => arr_dispatch!(o, a => k.put(&a), else => k.put(&a)),
            5 => k.put(PushIter(o)),
            6 => k.put(PushIter(o.iter())),
            7 => {
                let mut tmp = ColumnsRegion::<S::R, O>::default();
                let _pad = tmp.push(&o);
                let i = tmp.push(&o);
                k.put(tmp.index(i))
            }
            _ => {
                let b: RI<'_, Self> = IntoOwned::borrow_as(&o);
                k.put(b)
            }
        }
    }
    fn push_read<'a, K: Sink<Self::R>>(k: &mut K, item: RI<'a, Self>) -> K::Out {
        k.put(item)
    }
    fn push_owned_ref<'a, K: Sink<Self::R>>(k: &mut K, o: &'a Vec<Own<S>>, which: usize) -> K::Out {
        match which % 3 {
            0 => {
                let b: RI<'a, Self> = IntoOwned::borrow_as(o);
                k.put(b)
            }
            1 => k.put(o),
            _ => k.put(o.as_slice()),
        }
    }
    fn push_all_via<K: BatchSink<Self::R>>(k: &mut K, vs: &[Vec<S::V>], f: &mut Forms) {
        let os: Vec<Vec<Own<S>>> = vs.iter().map(|v| Self::owned(v)).collect();
        match f.pick("Columns(batch)", &["&Vec<T>", "Vec<T>", "&[T]"]) {
            0 => k.put_all(os.iter()),
            1 => k.put_all(os.into_iter()),
            _ => k.put_all(os.iter().map(|v| v.as_slice())),
        }
    }
    fn idx_key(i: &usize, out: &mut String) {
        out.push_str(&i.to_string());
    }
    fn model_push(m: &mut ColsM<S::M>, v: &Vec<S::V>) -> Option<usize> {
        while m.cols.len() < v.len() {
            m.cols.push(S::M::default());
        }
        for (c, x) in v.iter().enumerate() {
            let _ = S::model_push(&mut m.cols[c], x);
        }
        let i = m.rows;
        m.rows += 1;
        Some(i)
    }
    fn model_merged() -> ColsM<S::M> {
        ColsM { rows: 0, cols: Vec::new(), merged: true }
    }
    fn used_bounds(vs: &[&Vec<S::V>]) -> (usize, usize) {
        let ncols = vs.iter().map(|v| v.len()).max().unwrap_or(0);
        let header = ncols * std::mem::size_of::<S::R>();
        let mut lo = header;
        let mut hi = header;
        for c in 0..ncols {
            let col: Vec<&S::V> = vs.iter().filter_map(|v| v.get(c)).collect();
            let (a, b) = S::used_bounds(&col);
            lo += a;
            hi = hi.saturating_add(b);
        }
        let cells: usize = vs.iter().map(|v| v.len()).sum();
        let cell_bytes = cells * std::mem::size_of::<Idx<S>>();
        lo += cell_bytes;
        hi = hi.saturating_add(cell_bytes);
        let mut offs = vec![0usize];
        let mut acc = 0usize;
        for v in vs {
            acc += v.len();
            offs.push(acc);
        }
        let (a, b) = <O as IcKind<usize>>::used_bounds(&offs);
        (lo + a, hi.saturating_add(b))
    }
    fn accepts(trained: &[&Vec<S::V>], v: &Vec<S::V>) -> bool {
        if !S::CODED {
            return true;
        }
        for (c, x) in v.iter().enumerate() {
            let col: Vec<&S::V> = trained.iter().filter_map(|v| v.get(c)).collect();
            if col.is_empty() || !S::accepts(&col, x) {
                return false;
            }
        }
        true
    }
    fn cleared_used_max(ever: &[&Vec<S::V>]) -> usize {
        let ncols = ever.iter().map(|v| v.len()).max().unwrap_or(0);
        let mut s = ncols * std::mem::size_of::<S::R>();
        for c in 0..ncols {
            let col: Vec<&S::V> = ever.iter().filter_map(|v| v.get(c)).collect();
            s += S::cleared_used_max(&col);
        }
        s + <O as IcKind<usize>>::used_bounds(&[0]).1
    }
    fn classes(v: &Vec<S::V>, out: &mut Vec<&'static str>) {
        if v.is_empty() {
            out.push("empty-row");
        }
        if v.len() > 8 {
            out.push("wide-row");
        }
        for x in v {
            S::classes(x, out);
        }
    }
    fn payload(v: &Vec<S::V>) -> usize {
        v.iter().map(S::payload).sum()
    }
}

// ---------------------------------------------------------------------------------------------
// CollapseSequence
// ---------------------------------------------------------------------------------------------

/// Inner specs a `CollapseSequence` can be pushed into, with the forms whose `PartialEq` against
/// the read item exists in std.
pub trait CollapseForms: Spec {
    /// Equality as the collapsing region sees it (the read item's `PartialEq`).
    fn same(a: &Self::V, b: &Self::V) -> bool {
        a == b
    }
    const ALWAYS_SMALL: bool = false;
    fn collapse_push_via<K: Sink<CollapseSequence<Self::R>>>(
        k: &mut K,
        v: &Self::V,
        f: &mut Forms,
    ) -> K::Out;
    fn collapse_push_all_via<K: BatchSink<CollapseSequence<Self::R>>>(
        k: &mut K,
        vs: &[Self::V],
        f: &mut Forms,
    );
    fn collapse_push_read<'a, K: Sink<CollapseSequence<Self::R>>>(k: &mut K, item: RI<'a, Self>) -> K::Out;
}

macro_rules! collapse_forms_str {
    ($($head:tt)*) => {
        $($head)* {
            fn collapse_push_via<K: Sink<CollapseSequence<Self::R>>>(
                k: &mut K,
                v: &String,
                f: &mut Forms,
            ) -> K::Out {
                match f.pick("Collapse<str>", &["&String", "String", "&str", "read(region)"]) {
                    0 => k.put(v),
                    1 => k.put(v.clone()),
                    2 => k.put(v.as_str()),
                    _ => {
                        let mut tmp = flatcontainer::StringRegion::<flatcontainer::OwnedRegion<u8>>::default();
                        let _pad = tmp.push("x");
                        let i = tmp.push(v.as_str());
                        k.put(tmp.index(i))
                    }
                }
            }
            fn collapse_push_read<'a, K: Sink<CollapseSequence<Self::R>>>(k: &mut K, item: RI<'a, Self>) -> K::Out {
                k.put(item)
            }
            fn collapse_push_all_via<K: BatchSink<CollapseSequence<Self::R>>>(
                k: &mut K,
                vs: &[String],
                f: &mut Forms,
            ) {
                match f.pick("Collapse<str>(batch)", &["&String", "String", "&str"]) {
                    0 => k.put_all(vs.iter()),
                    1 => k.put_all(vs.to_vec().into_iter()),
                    _ => k.put_all(vs.iter().map(|s| s.as_str())),
                }
            }
        }
    };
}

collapse_forms_str!(impl<BS> CollapseForms for Str<BS>
where
    BS: Spec<V = Vec<u8>>,
    for<'a> BS::R: Region<ReadItem<'a> = &'a [u8], Owned = Vec<u8>>
        + Push<&'a [u8]>
        + crate::leaves::ReserveItemsBytes
        + 'a,
);
collapse_forms_str!(impl<BS, O> CollapseForms for Cip<Str<BS>, O>
where
    O: IcKind<usize>,
    BS: Spec<V = Vec<u8>>,
    for<'a> BS::R: Region<ReadItem<'a> = &'a [u8], Owned = Vec<u8>, Index = (usize, usize)>
        + Push<&'a [u8]>
        + crate::leaves::ReserveItemsBytes
        + 'a,
);

macro_rules! collapse_forms_bytes {
    ($($head:tt)*) => {
        $($head)* {
            fn collapse_push_via<K: Sink<CollapseSequence<Self::R>>>(
                k: &mut K,
                v: &Vec<u8>,
                f: &mut Forms,
            ) -> K::Out {
                const NAMES: &[&str] = &["&Vec<T>", "Vec<T>", "&[T]", "[T;N]", "&[T;N]", "read(region)"];
                match f.pick("Collapse<[u8]>", NAMES) {
                    0 => k.put(v),
                    1 => k.put(v.clone()),
                    2 => k.put(v.as_slice()),
                    3 => arr_dispatch!(v.clone(), a => k.put(a), else => k.put(a)),
                    4 => arr_dispatch!(v.clone(), a => k.put(&a), else => k.put(&a)),
                    _ => {
                        let mut tmp = flatcontainer::OwnedRegion::<u8>::default();
                        let _pad = tmp.push([7u8; 3]);
                        let i = tmp.push(v.as_slice());
                        k.put(tmp.index(i))
                    }
                }
            }
            fn collapse_push_read<'a, K: Sink<CollapseSequence<Self::R>>>(k: &mut K, item: RI<'a, Self>) -> K::Out {
                k.put(item)
            }
            fn collapse_push_all_via<K: BatchSink<CollapseSequence<Self::R>>>(
                k: &mut K,
                vs: &[Vec<u8>],
                f: &mut Forms,
            ) {
                match f.pick("Collapse<[u8]>(batch)", &["&Vec<T>", "Vec<T>", "&[T]"]) {
                    0 => k.put_all(vs.iter()),
                    1 => k.put_all(vs.to_vec().into_iter()),
                    _ => k.put_all(vs.iter().map(|s| s.as_slice())),
                }
            }
        }
    };
}
collapse_forms_bytes!(impl CollapseForms for Owned<u8>);
collapse_forms_bytes!(impl<O: IcKind<usize>> CollapseForms for Cip<Owned<u8>, O>);

macro_rules! collapse_forms_zst {
    ($($head:tt)*) => {
        $($head)* {
            fn collapse_push_via<K: Sink<CollapseSequence<Self::R>>>(
                k: &mut K,
                v: &u64,
                f: &mut Forms,
            ) -> K::Out {
                let o = <OwnedZst as Spec>::owned(v);
                match f.pick("Collapse<[()]>", &["&Vec<T>", "Vec<T>", "&[T]", "read(region)"]) {
                    0 => k.put(&o),
                    1 => k.put(o),
                    2 => k.put(o.as_slice()),
                    _ => {
                        let mut tmp = flatcontainer::OwnedRegion::<()>::default();
                        let _pad = tmp.push([(); 3]);
                        let i = tmp.push(o.as_slice());
                        k.put(tmp.index(i))
                    }
                }
            }
            fn collapse_push_read<'a, K: Sink<CollapseSequence<Self::R>>>(k: &mut K, item: RI<'a, Self>) -> K::Out {
                k.put(item)
            }
            fn collapse_push_all_via<K: BatchSink<CollapseSequence<Self::R>>>(
                k: &mut K,
                vs: &[u64],
                _f: &mut Forms,
            ) {
                let os: Vec<Vec<()>> = vs.iter().map(|v| <OwnedZst as Spec>::owned(v)).collect();
                k.put_all(os.iter())
            }
        }
    };
}
collapse_forms_zst!(impl CollapseForms for OwnedZst);
collapse_forms_zst!(impl<O: IcKind<usize>> CollapseForms for Cip<OwnedZst, O>);

/// Mirror regions: only the owned form compares against the read item.
pub trait CollapsePrim: Prim + PartialEq {
    fn same_v(a: &Self::V, b: &Self::V) -> bool {
        Self::from_v(a) == Self::from_v(b)
    }
    const FLOAT: bool = false;
}
impl CollapsePrim for u8 {}
impl CollapsePrim for u64 {}
impl CollapsePrim for usize {}
impl CollapsePrim for i32 {}
impl CollapsePrim for () {}
impl CollapsePrim for bool {}
impl CollapsePrim for f32 {
    const FLOAT: bool = true;
}
impl CollapsePrim for f64 {
    const FLOAT: bool = true;
}

impl<T: CollapsePrim> CollapseForms for Mirror<T> {
    fn same(a: &T::V, b: &T::V) -> bool {
        T::same_v(a, b)
    }
    const ALWAYS_SMALL: bool = T::FLOAT;
    fn collapse_push_via<K: Sink<CollapseSequence<Self::R>>>(
        k: &mut K,
        v: &T::V,
        f: &mut Forms,
    ) -> K::Out {
        let _ = f.pick("Collapse<Mirror>", &["T"]);
        k.put(T::from_v(v))
    }
    fn collapse_push_all_via<K: BatchSink<CollapseSequence<Self::R>>>(
        k: &mut K,
        vs: &[T::V],
        _f: &mut Forms,
    ) {
        k.put_all(vs.iter().map(T::from_v))
    }
    fn collapse_push_read<'a, K: Sink<CollapseSequence<Self::R>>>(k: &mut K, item: RI<'a, Self>) -> K::Out {
        k.put(item)
    }
}

pub struct Collapse<S>(PhantomData<S>);

pub struct CollapseM<S: Spec> {
    pub inner: S::M,
    pub last: Option<(S::V, Option<Idx<S>>)>,
}
impl<S: Spec> Clone for CollapseM<S> {
    fn clone(&self) -> Self {
        CollapseM { inner: self.inner.clone(), last: self.last.clone() }
    }
}
impl<S: Spec> Default for CollapseM<S> {
    fn default() -> Self {
        CollapseM { inner: S::M::default(), last: None }
    }
}

/// Run-compress a value sequence the way a collapsing region must.
pub fn collapse_runs<'a, S: CollapseForms>(vs: &[&'a S::V]) -> Vec<&'a S::V> {
    let mut out: Vec<&S::V> = Vec::new();
    for v in vs {
        if let Some(l) = out.last() {
            if S::same(l, v) {
                continue;
            }
        }
        out.push(v);
    }
    out
}

impl<S: CollapseForms> Spec for Collapse<S> {
    type R = CollapseSequence<S::R>;
    type V = S::V;
    type M = CollapseM<S>;
    const HEAP: bool = S::HEAP;
    const RESERVE_REGIONS: bool = S::RESERVE_REGIONS;
    const CODED: bool = S::CODED;
    const STRINGY: bool = S::STRINGY;
    const COLLAPSING: bool = true;
    const JSON_SAFE: bool = S::JSON_SAFE;
    const PLAIN_VEC: bool = false;
    const SLICY: bool = S::SLICY;
    const UNIT_INDEX: bool = S::UNIT_INDEX;
    fn name() -> String {
        format!("Collapse<{}>", S::name())
    }
    fn gen(t: &mut Tape, p: &Gp) -> S::V {
        if S::ALWAYS_SMALL || !t.chance(48) {
            S::gen(t, &Gp { small: true, ..p.clone() })
        } else {
            S::gen(t, p)
        }
    }
    fn shrink(v: &S::V) -> Vec<S::V> {
        S::shrink(v)
    }
    fn owned(v: &S::V) -> Own<S> {
        S::owned(v)
    }
    fn unowned(o: &Own<S>) -> S::V {
        S::unowned(o)
    }
    fn check<'a>(item: RI<'a, Self>, v: &S::V, cx: &mut Cx) -> Result<(), String> {
        S::check(item, v, cx)
    }
    fn push_via<K: Sink<Self::R>>(k: &mut K, v: &S::V, f: &mut Forms) -> K::Out {
        S::collapse_push_via(k, v, f)
    }
    fn push_read<'a, K: Sink<Self::R>>(k: &mut K, item: RI<'a, Self>) -> K::Out {
        S::collapse_push_read(k, item)
    }
    fn push_all_via<K: BatchSink<Self::R>>(k: &mut K, vs: &[S::V], f: &mut Forms) {
        S::collapse_push_all_via(k, vs, f)
    }
    fn idx_key(i: &Idx<S>, out: &mut String) {
        S::idx_key(i, out)
    }
    fn model_push(m: &mut CollapseM<S>, v: &S::V) -> Option<Idx<S>> {
        if let Some((lv, li)) = &m.last {
            if S::same(lv, v) {
                return *li;
            }
        }
        let i = S::model_push(&mut m.inner, v);
        m.last = Some((v.clone(), i));
        i
    }
    fn model_merged() -> CollapseM<S> {
        CollapseM { inner: S::model_merged(), last: None }
    }
    fn admissible(m: &CollapseM<S>, v: &S::V) -> bool {
        S::admissible(&m.inner, v)
    }
    fn used_bounds(vs: &[&S::V]) -> (usize, usize) {
        S::used_bounds(&collapse_runs::<S>(vs))
    }
    fn accepts(trained: &[&S::V], v: &S::V) -> bool {
        S::accepts(trained, v)
    }
    fn cleared_used_max(ever: &[&S::V]) -> usize {
        S::cleared_used_max(ever)
    }
    fn stores_nothing(prev: Option<&S::V>, v: &S::V) -> Option<bool> {
        match prev {
            Some(p) if S::same(p, v) => Some(true),
            _ => S::stores_nothing(None, v).and_then(|b| if b { Some(true) } else { None }),
        }
    }
    fn classes(v: &S::V, out: &mut Vec<&'static str>) {
        S::classes(v, out)
    }
    fn payload(v: &S::V) -> usize {
        S::payload(v)
    }
}

/// Re-export for catalogue convenience.
pub type OffM = OffsetM;
