//! Allocation discipline (C17): no reallocation after pre-sizing; logarithmically many allocator
//! calls without. Observed with heap_size capacities and a counting global allocator.

use std::time::Instant;

use flatcontainer::{FlatStack, IntoOwned, Region};
use serde::de::DeserializeOwned;
use serde::{Deserialize, Serialize};
use serde_json::{json, Value};

use crate::alloc_count::measure;
use crate::catalogue::{self, StackCaps, StackVisitor, Visitor};
use crate::runner::*;
use crate::spec::*;
use crate::tape::{fnv1a, Tape};
use crate::util::{guard, Counters};

#[derive(Clone, Debug, PartialEq, Eq, Hash, Serialize, Deserialize)]
#[serde(bound = "V: Serialize + DeserializeOwned")]
pub struct AllocCase<V> {
    /// items already in the region before pre-sizing
    pub prefix: Vec<V>,
    /// the announced and then pushed batch
    pub batch: Vec<V>,
    /// 0 reserve_items, 1 reserve_regions, 2 merge_regions
    pub route: u8,
    /// number of source regions the batch is spread over (routes 1, 2)
    pub nsrc: u8,
    pub form: Vec<u8>,
}

pub fn decode<S: Spec>(t: &mut Tape) -> AllocCase<S::V> {
    if t.chance(2) {
        // megabyte batch: ~18 copies of one very large value (64 KiB string / 70 000 elements)
        let gp = Gp { mega: true, ..Gp::normal() };
        let v = S::gen(t, &gp);
        let n = 17 + t.below(4);
        return AllocCase { prefix: Vec::new(), batch: vec![v; n], route: t.below(3) as u8, nsrc: 1 + t.below(3) as u8, form: Vec::new() };
    }
    let gp = match t.below(4) {
        0 => Gp::small(),
        1 => Gp { big: true, ..Gp::normal() },
        _ => Gp::normal(),
    };
    let np = if t.bool() { 0 } else { t.below(6) };
    let prefix = (0..np).map(|_| S::gen(t, &gp)).collect();
    let nb = match t.below(4) {
        0 => t.below(3),
        1 => 8 + t.below(40),
        _ => t.below(12),
    };
    let mut batch: Vec<S::V> = Vec::new();
    for _ in 0..nb {
        if !batch.is_empty() && t.chance(48) {
            let i = t.below(batch.len());
            batch.push(batch[i].clone());
        } else {
            batch.push(S::gen(t, &gp));
        }
    }
    AllocCase { prefix, batch, route: t.below(3) as u8, nsrc: 1 + t.below(3) as u8, form: t.bytes(1) }
}

fn fill<S: Spec>(r: &mut S::R, vs: &[S::V]) -> Result<(), String> {
    for v in vs {
        guard(|| {
            let _ = S::push_via(&mut RegionSink(r), v, &mut Forms::canonical());
        })
        .map_err(|p| format!("push panicked: {p}"))?;
    }
    Ok(())
}

/// Pre-size, then push exactly the announced contents; capacities must not move and (plain data)
/// the allocator must not be called.
pub fn run<S: Spec>(case: &AllocCase<S::V>, ev: &mut Counters) -> Result<(), String> {
    let route = case.route % 3;
    let owned: Vec<Own<S>> = case.batch.iter().map(S::owned).collect();
    let mut region: S::R;
    match route {
        0 => {
            region = S::R::default();
            fill::<S>(&mut region, &case.prefix)?;
            let mut f = Forms::new(&case.form);
            let rr = &mut region;
            let ok = guard(|| S::reserve_items(&mut RegionRSink(rr), &case.batch, &mut f)).map_err(|p| format!("reserve_items panicked: {p}"))?;
            if !ok {
                return Ok(());
            }
            ev.hit("route:reserve_items");
        }
        1 | 2 => {
            let nsrc = case.nsrc.max(1) as usize;
            let mut sources: Vec<S::R> = (0..nsrc).map(|_| S::R::default()).collect();
            for (i, v) in case.batch.iter().enumerate() {
                fill::<S>(&mut sources[i % nsrc], std::slice::from_ref(v))?;
            }
            if route == 1 {
                if !S::RESERVE_REGIONS {
                    return Ok(());
                }
                region = S::R::default();
                fill::<S>(&mut region, &case.prefix)?;
                let rr = &mut region;
                guard(|| rr.reserve_regions(sources.iter())).map_err(|p| format!("reserve_regions panicked: {p}"))?;
                ev.hit("route:reserve_regions");
            } else {
                region = guard(|| S::R::merge_regions(sources.iter())).map_err(|p| format!("merge_regions panicked: {p}"))?;
                ev.hit("route:merge_regions");
            }
        }
        _ => unreachable!(),
    }
    if route != 2 && !case.prefix.is_empty() {
        ev.hit("populated-start");
    }
    let before = heap_pairs(&region);
    let rr = &mut region;
    let (res, calls, bytes) = measure(|| {
        guard(|| {
            for o in &owned {
                let b: RI<'_, S> = IntoOwned::borrow_as(o);
                let _ = S::push_read(&mut RegionSink(rr), b);
            }
        })
    });
    res.map_err(|p| format!("push panicked: {p}"))?;
    let after = heap_pairs(&region);
    let what = ["reserve_items(batch)", "reserve_regions(sources holding the batch)", "merge_regions(sources holding the batch)"][route as usize];
    if before.len() != after.len() {
        return Err(format!("after {what}, pushing the {} announced items changed the number of storages {} -> {}", owned.len(), before.len(), after.len()));
    }
    for (k, (b, a)) in before.iter().zip(after.iter()).enumerate() {
        if b.1 != a.1 {
            return Err(format!(
                "after {what}, pushing exactly the {} announced items reallocated storage #{k}: capacity {} -> {} bytes (used {} -> {})",
                owned.len(), b.1, a.1, b.0, a.0
            ));
        }
    }
    if calls != 0 {
        return Err(format!(
            "after {what}, pushing exactly the {} announced plain-data items called the allocator {calls} times ({bytes} bytes) although no reported capacity changed",
            owned.len()
        ));
    }
    Ok(())
}

fn nontrivial<S: Spec>(case: &AllocCase<S::V>) -> bool {
    let total: usize = case.batch.iter().map(S::payload).sum();
    let sizes: std::collections::BTreeSet<usize> = case.batch.iter().map(S::payload).collect();
    case.batch.len() >= 8 && sizes.len() >= 2 && total >= 64
}

fn simplify<S: Spec>(c: &AllocCase<S::V>) -> Vec<AllocCase<S::V>> {
    let mut out = Vec::new();
    if !c.prefix.is_empty() {
        let mut d = c.clone();
        d.prefix.clear();
        out.push(d);
    }
    if c.nsrc > 1 {
        let mut d = c.clone();
        d.nsrc = 1;
        out.push(d);
    }
    if !c.form.is_empty() {
        let mut d = c.clone();
        d.form.clear();
        out.push(d);
    }
    let n = c.batch.len();
    if n > 0 {
        for (a, b) in [(0, n / 2), (n / 2, n), (0, 1), (n - 1, n)] {
            if a < b {
                let mut d = c.clone();
                d.batch.drain(a..b);
                out.push(d);
            }
        }
        for i in 0..n.min(5) {
            for w in S::shrink(&c.batch[i]).into_iter().take(4) {
                let mut d = c.clone();
                d.batch[i] = w;
                out.push(d);
            }
        }
    }
    out
}

fn presize_unit<S: Spec>(property: &'static str, cases: u32, seed: u64) -> Unit {
    let name = format!("alloc:{}", S::name());
    let uname = name.clone();
    Unit {
        name,
        run: Box::new(move |p: &mut Partial, _deadline: Instant| {
            let seed = derive_seed(seed, &[property, "alloc", &uname]);
            let mut evals = 0u64;
            let mut failed = false;
            let mut local = Partial::default();
            let mut sample = true;
            let found = drive_tapes(seed, cases, 700, |tape| {
                let case = decode::<S>(&mut Tape::new(tape));
                let mut ev = Counters::default();
                let r = run::<S>(&case, &mut ev);
                if !failed {
                    evals += 1;
                    local.classes.merge(&ev);
                    if nontrivial::<S>(&case) {
                        let h = fnv1a(serde_json::to_string(&case).unwrap_or_default().as_bytes()) ^ fnv1a(uname.as_bytes());
                        if local.nontrivial.insert(h) && sample && case.batch.len() <= 10 {
                            sample = false;
                            local.samples.push(json!({"engine": "alloc", "spec": S::name(), "case": serde_json::to_value(&case).unwrap_or(Value::Null)}));
                        }
                    }
                    failed = r.is_err();
                }
                r
            });
            local.evaluations = evals;
            if let Some((tape, msg)) = found {
                let mut case = decode::<S>(&mut Tape::new(&tape));
                let want = message_class(&msg);
                let mut budget = 1500;
                loop {
                    let mut improved = false;
                    for cand in simplify::<S>(&case) {
                        if budget == 0 {
                            break;
                        }
                        budget -= 1;
                        let mut ev = Counters::default();
                        if matches!(run::<S>(&cand, &mut ev), Err(m) if message_class(&m) == want) {
                            case = cand;
                            improved = true;
                            break;
                        }
                    }
                    if !improved || budget == 0 {
                        break;
                    }
                }
                let mut ev = Counters::default();
                let final_msg = run::<S>(&case, &mut ev).err().unwrap_or(msg);
                local.violations.push(Violation {
                    property: property.to_string(),
                    engine: "alloc".into(),
                    spec: S::name(),
                    variant: "presize".into(),
                    signature: signature(property, "alloc", &final_msg),
                    message: final_msg,
                    size: case.batch.len() + case.prefix.len(),
                    case: json!({"engine": "alloc", "spec": S::name(), "case": serde_json::to_value(&case).unwrap_or(Value::Null)}),
                });
            }
            p.merge(local);
        }),
    }
}

/// Without pre-sizing: allocator calls while pushing n items stay logarithmic per storage.
/// The value pools of the logarithmic series: 0 = small values (fixed tape), 1 = wide values
/// (fixed pseudo-random tape, unrestricted domain at nesting depth 1), 2 = extreme values (an
/// all-0xFF tape: maximal lengths, integers at their maximum).
pub const LOG_POOLS: usize = 3;
pub fn log_pool<S: Spec>(kind: usize) -> Vec<S::V> {
    match kind {
        0 => {
            let tape = [17u8, 99, 3, 250, 41, 7, 128, 64, 200, 11, 90, 33, 5, 177, 222, 60, 1, 2, 3, 4, 5, 6, 7, 8, 9, 10, 11, 12];
            let mut t = Tape::new(&tape);
            let gp = Gp::small();
            (0..8).map(|_| S::gen(&mut t, &gp)).collect()
        }
        k => {
            let mut x = 0x9E37_79B9u32;
            let tape: Vec<u8> = (0..2048)
                .map(|_| {
                    x = x.wrapping_mul(1_664_525).wrapping_add(1_013_904_223);
                    if k == 2 { 0xFF } else { (x >> 24) as u8 }
                })
                .collect();
            let mut t = Tape::new(&tape);
            let gp = Gp { small: false, big: false, depth: 1, mega: false };
            (0..8).map(|_| S::gen(&mut t, &gp)).collect()
        }
    }
}

pub fn run_log<S: Spec>(n: usize, pool_kind: usize, form: usize) -> Result<(u64, usize), String> {
    let pool: Vec<S::V> = log_pool::<S>(pool_kind);
    let values: Vec<&S::V> = (0..n).map(|i| &pool[(i * 7 + i / 3) % pool.len()]).collect();
    let owned: Vec<Own<S>> = values.iter().map(|v| S::owned(v)).collect();
    let mut region = S::R::default();
    let rr = &mut region;
    let (res, calls, _bytes) = measure(|| {
        guard(|| {
            for o in &owned {
                let _ = S::push_owned_ref(&mut RegionSink(rr), o, form);
            }
        })
    });
    res.map_err(|p| format!("push panicked: {p}"))?;
    let storages = heap_pairs(&region).len();
    Ok((calls, storages))
}

fn log_unit<S: Spec>(property: &'static str, max_pow: u32, only_pool: Option<(usize, usize)>) -> Unit {
    let name = format!("alloc-log:{}", S::name());
    let uname = name.clone();
    Unit {
        name,
        run: Box::new(move |p: &mut Partial, _deadline: Instant| {
          for (pool, form) in (0..LOG_POOLS).flat_map(|p| (0..3usize).map(move |f| (p, f))) {
            // form: which by-reference input form is pushed (0 the read item, 1 and 2 the
            // reference forms of the composition, e.g. &Vec<T> and &[T])
            if only_pool.map_or(false, |o| o != (pool, form)) {
                continue;
            }
            let mut prev: Option<(usize, u64)> = None;
            // the wide and extreme pools hold larger values: shorter series
            let top = if pool == 0 { max_pow } else { max_pow.min(10) };
            for pow in (6..=top).step_by(2) {
                let n = 1usize << pow;
                p.evaluations += 1;
                match run_log::<S>(n, pool, form) {
                    Ok((calls, storages)) => {
                        p.classes.hit("log-runs");
                        p.classes.hit(["log-pool:small", "log-pool:wide", "log-pool:extreme"][pool]);
                        p.classes.hit(["log-form:read-item", "log-form:ref-1", "log-form:ref-2"][form]);
                        // one growth step per storage and doubling of the input, plus slack for
                        // the first allocations and representation switches
                        let bound = (storages.max(1) as u64) * (pow as u64 + 10) + 8;
                        p.nontrivial.insert(fnv1a(format!("{uname}:{pool}:{form}:{n}").as_bytes()));
                        if p.samples.len() < 2 && pow == 10 {
                            p.samples.push(json!({"engine": "alloc-log", "spec": S::name(), "pool": pool, "n": n, "allocator_calls": calls, "storages": storages, "bound": bound}));
                        }
                        if calls > bound {
                            p.violations.push(Violation {
                                property: property.to_string(),
                                engine: "alloc-log".into(),
                                spec: S::name(),
                                variant: "log".into(),
                                signature: signature(property, "alloc-log", "allocator calls exceed the logarithmic bound"),
                                message: format!("pool {pool}, reference form {form}: pushing n = {n} plain-data items into a default region called the allocator {calls} times with {storages} storages; the O(log n) per storage bound is {bound}"),
                                size: pow as usize,
                                case: json!({"engine": "alloc-log", "spec": S::name(), "pow": pow, "pool": pool, "form": form}),
                            });
                            return;
                        }
                        if let Some((_, pc)) = prev {
                            // quadrupling the input adds at most two growth steps per storage
                            let delta_bound = 2 * storages as u64 + 6;
                            if calls > pc + delta_bound {
                                p.violations.push(Violation {
                                    property: property.to_string(),
                                    engine: "alloc-log".into(),
                                    spec: S::name(),
                                    variant: "log".into(),
                                    signature: signature(property, "alloc-log", "allocator calls grow faster than logarithmically"),
                                    message: format!("pool {pool}, reference form {form}: allocator calls grew from {pc} to {calls} when n went from {} to {n} ({storages} storages; allowed growth {delta_bound})", n / 4),
                                    size: pow as usize,
                                    case: json!({"engine": "alloc-log", "spec": S::name(), "pow": pow, "pool": pool, "form": form}),
                                });
                                return;
                            }
                        }
                        prev = Some((n, calls));
                    }
                    Err(e) => {
                        p.notes.push(format!("{uname}: {e}"));
                        return;
                    }
                }
            }
          }
        }),
    }
}

struct Collector {
    property: &'static str,
    cases: u32,
    seed: u64,
    max_pow: u32,
    units: Vec<Unit>,
}
impl Visitor for Collector {
    fn visit<S: Spec>(&mut self, _caps: Caps<S::R>) {
        if S::PLAIN_VEC && S::HEAP && !S::CODED {
            self.units.push(presize_unit::<S>(self.property, self.cases, self.seed));
        }
        let n = S::name();
        // plain-data payload only; the harness-local prefix codec builds a temporary per push
        if !S::CODED && S::HEAP && !n.contains("String>") && !n.contains("Codec<") {
            self.units.push(log_unit::<S>(self.property, self.max_pow, None));
        }
    }
}

// ---- FlatStack with a vector index container ---------------------------------------------------

fn run_stack<S: Spec, IC: IcKind<Idx<S>> + Default>(case: &AllocCase<S::V>, ev: &mut Counters) -> Result<(), String> {
    let owned: Vec<Own<S>> = case.batch.iter().map(S::owned).collect();
    let route = case.route % 2;
    let mut stack: FlatStack<S::R, IC>;
    if route == 0 {
        // reserve + reserve_items on a (possibly populated) stack
        stack = FlatStack::default();
        for v in &case.prefix {
            S::push_via(&mut StackSink(&mut stack), v, &mut Forms::canonical());
        }
        stack.reserve(case.batch.len());
        let mut f = Forms::new(&case.form);
        if !S::reserve_items(&mut StackRSink(&mut stack), &case.batch, &mut f) {
            return Ok(());
        }
        ev.hit("route:stack-reserve+reserve_items");
    } else {
        let nsrc = case.nsrc.max(1) as usize;
        let mut sources: Vec<FlatStack<S::R, IC>> = (0..nsrc).map(|_| FlatStack::default()).collect();
        for (i, v) in case.batch.iter().enumerate() {
            S::push_via(&mut StackSink(&mut sources[i % nsrc]), v, &mut Forms::canonical());
        }
        stack = guard(|| FlatStack::merge_capacity(sources.iter())).map_err(|p| format!("merge_capacity panicked: {p}"))?;
        ev.hit("route:merge_capacity");
    }
    let mut before = Vec::new();
    stack.heap_size(|u, c| before.push((u, c)));
    let st = &mut stack;
    let (res, calls, bytes) = measure(|| {
        guard(|| {
            for o in &owned {
                let b: RI<'_, S> = IntoOwned::borrow_as(o);
                S::push_read(&mut StackSink(st), b);
            }
        })
    });
    res.map_err(|p| format!("copy panicked: {p}"))?;
    let mut after = Vec::new();
    stack.heap_size(|u, c| after.push((u, c)));
    let what = ["reserve(n) + reserve_items(batch)", "merge_capacity(stacks holding the batch)"][route as usize];
    for (k, (b, a)) in before.iter().zip(after.iter()).enumerate() {
        if b.1 != a.1 {
            return Err(format!("FlatStack: after {what}, copying the {} announced items reallocated storage #{k} of {}: capacity {} -> {}", owned.len(), before.len(), b.1, a.1));
        }
    }
    if before.len() != after.len() {
        return Err(format!("FlatStack: number of storages changed {} -> {}", before.len(), after.len()));
    }
    if calls != 0 {
        return Err(format!("FlatStack: after {what}, copying the {} announced plain-data items called the allocator {calls} times ({bytes} bytes)", owned.len()));
    }
    Ok(())
}

fn stack_unit<S: Spec, IC: IcKind<Idx<S>> + Default>(property: &'static str, cases: u32, seed: u64) -> Unit {
    let name = format!("alloc:FlatStack<{},{}>", S::name(), <IC as IcKind<Idx<S>>>::NAME);
    let uname = name.clone();
    Unit {
        name,
        run: Box::new(move |p: &mut Partial, _deadline: Instant| {
            let seed = derive_seed(seed, &[property, "alloc-stack", &uname]);
            let mut evals = 0u64;
            let mut failed = false;
            let mut local = Partial::default();
            let found = drive_tapes(seed, cases, 700, |tape| {
                let case = decode::<S>(&mut Tape::new(tape));
                let mut ev = Counters::default();
                let r = run_stack::<S, IC>(&case, &mut ev);
                if !failed {
                    evals += 1;
                    local.classes.merge(&ev);
                    if nontrivial::<S>(&case) {
                        local.nontrivial.insert(fnv1a(serde_json::to_string(&case).unwrap_or_default().as_bytes()) ^ fnv1a(uname.as_bytes()));
                    }
                    failed = r.is_err();
                }
                r
            });
            local.evaluations = evals;
            if let Some((tape, msg)) = found {
                let mut case = decode::<S>(&mut Tape::new(&tape));
                let want = message_class(&msg);
                let mut budget = 1000;
                loop {
                    let mut improved = false;
                    for cand in simplify::<S>(&case) {
                        if budget == 0 {
                            break;
                        }
                        budget -= 1;
                        let mut ev = Counters::default();
                        if matches!(run_stack::<S, IC>(&cand, &mut ev), Err(m) if message_class(&m) == want) {
                            case = cand;
                            improved = true;
                            break;
                        }
                    }
                    if !improved || budget == 0 {
                        break;
                    }
                }
                let mut ev = Counters::default();
                let final_msg = run_stack::<S, IC>(&case, &mut ev).err().unwrap_or(msg);
                local.violations.push(Violation {
                    property: property.to_string(),
                    engine: "alloc".into(),
                    spec: uname.clone(),
                    variant: "stack".into(),
                    signature: signature(property, "alloc-stack", &final_msg),
                    message: final_msg,
                    size: case.batch.len(),
                    case: json!({"engine": "alloc-stack", "stack": uname, "case": serde_json::to_value(&case).unwrap_or(Value::Null)}),
                });
            }
            p.merge(local);
        }),
    }
}

struct StackCollector {
    property: &'static str,
    cases: u32,
    seed: u64,
    units: Vec<Unit>,
}
impl StackVisitor for StackCollector {
    fn visit<S: Spec, IC: IcKind<Idx<S>> + Default>(&mut self, _caps: StackCaps<S::R, IC>) {
        if S::PLAIN_VEC && S::HEAP && !S::CODED && <IC as IcKind<Idx<S>>>::PLAIN_VEC {
            self.units.push(stack_unit::<S, IC>(self.property, self.cases, self.seed));
        }
    }
}

pub fn units(property: &'static str, thorough: bool, seed: u64) -> Vec<Unit> {
    let mut c = Collector { property, cases: if thorough { 20000 } else { 4000 }, seed, max_pow: if thorough { 16 } else { 14 }, units: Vec::new() };
    catalogue::all(&mut c);
    let mut s = StackCollector { property, cases: if thorough { 12000 } else { 2500 }, seed, units: Vec::new() };
    catalogue::stacks(&mut s);
    let mut u = c.units;
    u.extend(s.units);
    u
}

struct Replayer<'a> {
    spec: &'a str,
    case: &'a Value,
    result: Option<Result<(), String>>,
}
impl<'a> Visitor for Replayer<'a> {
    fn visit<S: Spec>(&mut self, _caps: Caps<S::R>) {
        if self.result.is_some() || S::name() != self.spec {
            return;
        }
        if let Some(pow) = self.case.get("pow").and_then(|p| p.as_u64()) {
            // replay of the logarithmic bound: re-run the series up to that n
            let mut p = Partial::default();
            (log_unit::<S>("C17", pow as u32, Some((self.case.get("pool").and_then(|p| p.as_u64()).unwrap_or(0) as usize, self.case.get("form").and_then(|p| p.as_u64()).unwrap_or(0) as usize))).run)(&mut p, Instant::now() + std::time::Duration::from_secs(600));
            self.result = Some(match p.violations.first() {
                Some(v) => Err(v.message.clone()),
                None => Ok(()),
            });
            return;
        }
        let case: AllocCase<S::V> = match serde_json::from_value(self.case["case"].clone()) {
            Ok(c) => c,
            Err(e) => {
                self.result = Some(Err(format!("cannot decode case: {e}")));
                return;
            }
        };
        let mut ev = Counters::default();
        self.result = Some(run::<S>(&case, &mut ev));
    }
}
struct StackReplayer<'a> {
    name: &'a str,
    case: &'a Value,
    result: Option<Result<(), String>>,
}
impl<'a> StackVisitor for StackReplayer<'a> {
    fn visit<S: Spec, IC: IcKind<Idx<S>> + Default>(&mut self, _caps: StackCaps<S::R, IC>) {
        let name = format!("alloc:FlatStack<{},{}>", S::name(), <IC as IcKind<Idx<S>>>::NAME);
        if self.result.is_some() || name != self.name {
            return;
        }
        let case: AllocCase<S::V> = match serde_json::from_value(self.case["case"].clone()) {
            Ok(c) => c,
            Err(e) => {
                self.result = Some(Err(format!("cannot decode case: {e}")));
                return;
            }
        };
        let mut ev = Counters::default();
        self.result = Some(run_stack::<S, IC>(&case, &mut ev));
    }
}

pub fn replay(engine: &str, case: &Value) -> Result<(), String> {
    if !crate::alloc_count::installed() {
        return Err("counting allocator not installed in this binary".into());
    }
    if engine == "alloc-stack" {
        let mut r = StackReplayer { name: case["stack"].as_str().unwrap_or(""), case, result: None };
        catalogue::stacks(&mut r);
        return r.result.unwrap_or_else(|| Err("stack not in the catalogue".into()));
    }
    let mut r = Replayer { spec: case["spec"].as_str().unwrap_or(""), case, result: None };
    catalogue::all(&mut r);
    r.result.unwrap_or_else(|| Err("composition not in the catalogue".into()))
}
