//! Dedicated engines (index containers, Huffman, dictionary codec, stacks, laws, order, alloc).

use serde_json::Value;

pub mod index;
pub mod stack;

pub fn replay(property: &str, engine: &str, case: &Value) -> Result<(), String> {
    match engine {
        "stack" => stack::replay(property, case),
        "index" => index::replay(case),
        _ => Err(format!("unknown engine {engine:?} in replay file")),
    }
}
