//! Dedicated engines (index containers, Huffman, dictionary codec, stacks, laws, order, alloc).

use serde_json::Value;

pub fn replay(_property: &str, engine: &str, _case: &Value) -> Result<(), String> {
    Err(format!("unknown engine {engine:?} in replay file"))
}
