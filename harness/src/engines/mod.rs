//! Dedicated engines (index containers, Huffman, dictionary codec, stacks, laws, order, alloc).

use serde_json::Value;

pub mod index;

pub fn replay(_property: &str, engine: &str, case: &Value) -> Result<(), String> {
    match engine {
        "index" => index::replay(case),
        _ => Err(format!("unknown engine {engine:?} in replay file")),
    }
}
