//! Dedicated engines (index containers, Huffman, dictionary codec, stacks, laws, order, alloc).

use serde_json::Value;

pub mod alloc;
pub mod codec;
pub mod exotic;
pub mod huffman;
pub mod index;
pub mod laws;
pub mod order;
pub mod scan;
pub mod series;
pub mod stack;

pub fn replay(property: &str, engine: &str, case: &Value) -> Result<(), String> {
    match engine {
        "stack" => stack::replay(property, case),
        "huffman" => huffman::replay(case),
        "codec" => codec::replay(case),
        "exotic" => exotic::replay(case),
        "laws" => laws::replay(case),
        "order" => order::replay(case),
        "scan" => scan::replay_c04(),
        "alloc" | "alloc-log" | "alloc-stack" => alloc::replay(engine, case),
        "index" => index::replay(case),
        "series" => series::replay(case),
        _ => Err(format!("unknown engine {engine:?} in replay file")),
    }
}
