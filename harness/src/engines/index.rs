//! Index containers (C05, C19): Stride, IndexList, IndexOptimized, Vec<usize> against a
//! `Vec<usize>` reference; the documented space rule against `heap_size`.

use std::collections::HashSet;
use std::time::Instant;

use flatcontainer::impls::index::{IndexContainer, IndexList, IndexOptimized, Stride};
use flatcontainer::impls::storage::Storage;
use serde::{Deserialize, Serialize};
use serde_json::{json, Value};

use crate::runner::*;
use crate::spec::{documented_index_cost, stride_prefix_len};
use crate::tape::{fnv1a, Tape};
use crate::util::guard;

pub type IL = IndexList<Vec<u32>, Vec<u64>>;

#[derive(Clone, Debug, PartialEq, Eq, Hash, Serialize, Deserialize)]
pub enum IOp {
    Push(usize),
    Clear,
    Extend(Vec<usize>),
    Reserve(usize),
    Serde,
    CloneSelf,
}

pub const ALPHABET: [usize; 10] = [
    0,
    1,
    2,
    3,
    4,
    6,
    u32::MAX as usize,
    u32::MAX as usize + 1,
    1usize << 63,
    usize::MAX,
];

/// What the engine needs from a container under test.
pub trait Subject: Clone + Default {
    const NAME: &'static str;
    /// Accept-or-reject container (Stride): returns whether the push was accepted.
    fn push(&mut self, x: usize) -> bool;
    fn clear(&mut self);
    fn extend(&mut self, xs: &[usize]) -> bool;
    fn reserve(&mut self, n: usize);
    fn len(&self) -> usize;
    fn is_empty(&self) -> bool;
    fn index(&self, i: usize) -> usize;
    fn iter_bounded(&self, limit: usize) -> Vec<usize>;
    fn heap(&self) -> Vec<(usize, usize)>;
    fn fingerprint(&self) -> String;
    fn serde_roundtrip(&self) -> Result<Self, String>;
    /// The documented cost of holding `seq`, None when no promise is made.
    fn documented_cost(seq: &[usize]) -> Option<usize>;
    const IS_STRIDE: bool = false;
}

macro_rules! container_subject {
    ($t:ty, $name:literal, $cost:expr) => {
        impl Subject for $t {
            const NAME: &'static str = $name;
            fn push(&mut self, x: usize) -> bool {
                IndexContainer::push(self, x);
                true
            }
            fn clear(&mut self) {
                Storage::<usize>::clear(self)
            }
            fn extend(&mut self, xs: &[usize]) -> bool {
                IndexContainer::extend(self, xs.iter().copied());
                true
            }
            fn reserve(&mut self, n: usize) {
                Storage::<usize>::reserve(self, n)
            }
            fn len(&self) -> usize {
                Storage::<usize>::len(self)
            }
            fn is_empty(&self) -> bool {
                Storage::<usize>::is_empty(self)
            }
            fn index(&self, i: usize) -> usize {
                IndexContainer::index(self, i)
            }
            fn iter_bounded(&self, limit: usize) -> Vec<usize> {
                IndexContainer::iter(self).take(limit).collect()
            }
            fn heap(&self) -> Vec<(usize, usize)> {
                let mut v = Vec::new();
                Storage::<usize>::heap_size(self, |u, c| v.push((u, c)));
                v
            }
            fn fingerprint(&self) -> String {
                format!("{:?}", self)
            }
            fn serde_roundtrip(&self) -> Result<Self, String> {
                let s = serde_json::to_string(self).map_err(|e| e.to_string())?;
                serde_json::from_str(&s).map_err(|e| format!("{e}; json = {s}"))
            }
            fn documented_cost(seq: &[usize]) -> Option<usize> {
                let f: fn(&[usize]) -> Option<usize> = $cost;
                f(seq)
            }
        }
    };
}
container_subject!(IndexOptimized, "IndexOptimized", |s| Some(documented_index_cost(s, true)));
container_subject!(IL, "IndexList", |s| Some(documented_index_cost(s, false)));
container_subject!(Vec<usize>, "Vec<usize>", |s| Some(8 * s.len()));

impl Subject for Stride {
    const NAME: &'static str = "Stride";
    const IS_STRIDE: bool = true;
    fn push(&mut self, x: usize) -> bool {
        Stride::push(self, x)
    }
    fn clear(&mut self) {
        Stride::clear(self)
    }
    fn extend(&mut self, _xs: &[usize]) -> bool {
        false
    }
    fn reserve(&mut self, _n: usize) {}
    fn len(&self) -> usize {
        Stride::len(self)
    }
    fn is_empty(&self) -> bool {
        Stride::is_empty(self)
    }
    fn index(&self, i: usize) -> usize {
        Stride::index(self, i)
    }
    fn iter_bounded(&self, limit: usize) -> Vec<usize> {
        Stride::iter(self).take(limit).collect()
    }
    fn heap(&self) -> Vec<(usize, usize)> {
        Vec::new()
    }
    fn fingerprint(&self) -> String {
        format!("{:?}", self)
    }
    fn serde_roundtrip(&self) -> Result<Self, String> {
        let s = serde_json::to_string(self).map_err(|e| e.to_string())?;
        serde_json::from_str(&s).map_err(|e| format!("{e}; json = {s}"))
    }
    fn documented_cost(_seq: &[usize]) -> Option<usize> {
        Some(0)
    }
}

/// The state the engine carries next to the container.
#[derive(Clone, Default)]
pub struct Model {
    pub seq: Vec<usize>,
    /// a spill happened since creation (capacity may legitimately be retained)
    pub ever_spilled: bool,
}

#[derive(Default, Clone)]
pub struct IStats {
    pub pushes: usize,
    pub rejected: usize,
    pub spilled: bool,
    pub chonk: bool,
    pub zero_stride: bool,
    pub saturated: bool,
    pub clear_reuse: bool,
    pub small_after_large: bool,
    pub big_second: bool,
    pub break_after_saturation: bool,
    pub pure_stride_checks: usize,
}

/// Full agreement of container and reference.
fn agree<C: Subject>(c: &C, m: &Model, cost: bool) -> Result<(), String> {
    let n = m.seq.len();
    let l = guard(|| c.len()).map_err(|p| format!("len() panicked: {p}"))?;
    if l != n {
        return Err(format!("len() = {l}, reference has {n} elements {:?}", short(&m.seq)));
    }
    let e = guard(|| c.is_empty()).map_err(|p| format!("is_empty() panicked: {p}"))?;
    if e != (n == 0) {
        return Err(format!("is_empty() = {e} with {n} elements"));
    }
    // all positions for short sequences, a spread for long ones
    let step = if n <= 64 { 1 } else { n / 48 };
    let mut i = 0;
    while i < n {
        let got = guard(|| c.index(i)).map_err(|p| format!("index({i}) panicked: {p}"))?;
        if got != m.seq[i] {
            return Err(format!("index({i}) = {got}, reference {} (sequence {:?})", m.seq[i], short(&m.seq)));
        }
        i += step;
    }
    if n > 0 {
        let got = guard(|| c.index(n - 1)).map_err(|p| format!("index({}) panicked: {p}", n - 1))?;
        if got != m.seq[n - 1] {
            return Err(format!("index({}) = {got}, reference {}", n - 1, m.seq[n - 1]));
        }
    }
    let it = guard(|| c.iter_bounded(n + 1)).map_err(|p| format!("iteration panicked: {p}"))?;
    if it != m.seq {
        return Err(format!("iteration yields {:?}, reference {:?}", short(&it), short(&m.seq)));
    }
    let heap = guard(|| c.heap()).map_err(|p| format!("heap_size panicked: {p}"))?;
    for (u, cap) in &heap {
        if u > cap {
            return Err(format!("heap_size reports used {u} > capacity {cap}"));
        }
    }
    if cost {
        if let Some(expected) = C::documented_cost(&m.seq) {
            let used: usize = heap.iter().map(|p| p.0).sum();
            if used > expected {
                return Err(format!(
                    "index storage uses {used} bytes, the documented rule allows {expected} for {:?} (stride prefix {} of {})",
                    short(&m.seq), stride_prefix_len(&m.seq), n
                ));
            }
            if expected == 0 && !m.ever_spilled && C::NAME == "IndexOptimized" {
                let capsum: usize = heap.iter().map(|p| p.1).sum();
                if capsum != 0 {
                    return Err(format!(
                        "a pure stride/saturation sequence {:?} must occupy no heap at all, capacity {capsum} reported",
                        short(&m.seq)
                    ));
                }
            }
        }
    }
    Ok(())
}

fn short(v: &[usize]) -> Vec<usize> {
    if v.len() <= 12 {
        v.to_vec()
    } else {
        let mut s = v[..6].to_vec();
        s.extend_from_slice(&v[v.len() - 6..]);
        s
    }
}

/// Apply one op to container and model, checking the op's own contract.
pub fn step<C: Subject>(c: &mut C, m: &mut Model, op: &IOp, st: &mut IStats, cost: bool) -> Result<(), String> {
    match op {
        IOp::Push(x) => {
            let x = *x;
            if C::IS_STRIDE {
                let mut cand = m.seq.clone();
                cand.push(x);
                let expect = stride_prefix_len(&cand) == cand.len();
                let before = c.fingerprint();
                let got = guard(|| c.push(x)).map_err(|p| format!("push({x}) panicked: {p} (sequence {:?})", short(&m.seq)))?;
                if got != expect {
                    return Err(format!(
                        "Stride::push({x}) after {:?} returned {got}; the documented pattern 0, s, 2s, .. then repeats of the last {} it",
                        short(&m.seq), if expect { "accepts" } else { "rejects" }
                    ));
                }
                if got {
                    m.seq.push(x);
                } else {
                    st.rejected += 1;
                    let after = c.fingerprint();
                    if after != before {
                        return Err(format!("Stride::push({x}) rejected but changed the state {before} -> {after}"));
                    }
                }
            } else {
                guard(|| c.push(x)).map_err(|p| format!("push({x}) panicked: {p} (sequence {:?})", short(&m.seq)))?;
                if let Some(&last) = m.seq.last() {
                    if last > u32::MAX as usize && x <= u32::MAX as usize {
                        st.small_after_large = true;
                    }
                }
                if m.seq.len() == 1 && x >= 1usize << 63 {
                    st.big_second = true;
                }
                m.seq.push(x);
            }
            st.pushes += 1;
            let p = stride_prefix_len(&m.seq);
            if p < m.seq.len() {
                st.spilled = true;
                m.ever_spilled = true;
                if m.seq[p..].iter().any(|v| *v > u32::MAX as usize) {
                    st.chonk = true;
                }
            } else {
                st.pure_stride_checks += 1;
            }
            if m.seq.len() >= 3 && m.seq[1] == 0 {
                st.zero_stride = true;
            }
            if m.seq.len() >= 3 && p == m.seq.len() && m.seq[p - 1] == m.seq[p - 2] && m.seq[1] != 0 {
                st.saturated = true;
            }
            if p >= 3 && p < m.seq.len() && m.seq[p - 1] == m.seq[p - 2] && m.seq[1] != 0 {
                st.break_after_saturation = true;
            }
        }
        IOp::Clear => {
            guard(|| c.clear()).map_err(|p| format!("clear panicked: {p}"))?;
            if !m.seq.is_empty() {
                st.clear_reuse = true;
            }
            m.seq.clear();
        }
        IOp::Extend(xs) => {
            let done = guard(|| c.extend(xs)).map_err(|p| format!("extend({:?}) panicked: {p}", short(xs)))?;
            if done {
                m.seq.extend_from_slice(xs);
                if stride_prefix_len(&m.seq) < m.seq.len() {
                    m.ever_spilled = true;
                    st.spilled = true;
                }
                st.pushes += xs.len();
            }
        }
        IOp::Reserve(n) => {
            guard(|| c.reserve(*n)).map_err(|p| format!("reserve({n}) panicked: {p}"))?;
            // no exemption for reserve: the stride representation has no capacity to reserve
            // (FlatStack::extend reserves on every call, and a dense stack must stay heap-free)
        }
        IOp::Serde => {
            let before = c.fingerprint();
            let back = guard(|| c.serde_roundtrip()).map_err(|p| format!("serde panicked: {p}"))?;
            match back {
                Ok(b) => {
                    let after = b.fingerprint();
                    if after != before {
                        return Err(format!("serde round trip changed the container: {before} -> {after}"));
                    }
                    *c = b;
                }
                Err(e) => return Err(format!("serde round trip failed: {e}")),
            }
        }
        IOp::CloneSelf => {
            let d = guard(|| c.clone()).map_err(|p| format!("clone panicked: {p}"))?;
            let mut e = C::default();
            let _ = e.push(0);
            e.clone_from(&d);
            *c = e;
        }
    }
    agree(c, m, cost)
}

pub fn run_ops<C: Subject>(ops: &[IOp], cost: bool, st: &mut IStats) -> Result<(), String> {
    let mut c = C::default();
    let mut m = Model::default();
    for (k, op) in ops.iter().enumerate() {
        step(&mut c, &mut m, op, st, cost).map_err(|e| format!("op #{k} {:?}: {e}", brief(op)))?;
    }
    Ok(())
}

fn brief(op: &IOp) -> String {
    match op {
        IOp::Extend(xs) => format!("Extend({} values)", xs.len()),
        o => format!("{:?}", o),
    }
}

fn nontrivial(ops: &[IOp], st: &IStats) -> bool {
    let _ = ops;
    st.pushes >= 3 && (st.spilled || st.rejected > 0 || st.clear_reuse)
}

fn case_json<C: Subject>(ops: &[IOp], cost: bool) -> Value {
    json!({"engine": "index", "container": C::NAME, "cost": cost, "ops": serde_json::to_value(ops).unwrap()})
}

fn record_classes(p: &mut Partial, st: &IStats, name: &str) {
    let mut hit = |k: &str, b: bool| {
        if b {
            p.classes.hit(&format!("{name}:{k}"));
        }
    };
    hit("spilled", st.spilled);
    hit("u64-remainder", st.chonk);
    hit("zero-stride", st.zero_stride);
    hit("saturated", st.saturated);
    hit("clear-then-reuse", st.clear_reuse);
    hit("small-after-large", st.small_after_large);
    hit("value>=2^63-as-second", st.big_second);
    hit("break-after-saturation", st.break_after_saturation);
    hit("rejected-push", st.rejected > 0);
}

/// Bounded-exhaustive: all sequences over ALPHABET ∪ {clear} of length <= depth whose first
/// symbol is `first`, explored depth-first with cloned container state.
pub fn exhaustive_unit<C: Subject + Send + 'static>(
    property: &'static str,
    first: usize,
    depth: usize,
    alphabet: Vec<IOp>,
    cost: bool,
    count_from_len: usize,
) -> Unit {
    let name = format!("index:{}#exh(first={},depth<={},alphabet={})", C::NAME, first, depth, alphabet.len());
    let uname = name.clone();
    Unit {
        name,
        run: Box::new(move |p: &mut Partial, deadline: Instant| {
            struct Ctx<'a> {
                alphabet: &'a [IOp],
                depth: usize,
                cost: bool,
                count_from_len: usize,
                count: u64,
                nontrivial: u64,
                sigs: HashSet<String>,
                viol: Vec<(String, Vec<IOp>)>,
                deadline: Instant,
                complete: bool,
                agg: IStats,
            }
            fn dfs<C: Subject>(cx: &mut Ctx, c: &C, m: &Model, st: &IStats, path: &mut Vec<IOp>) {
                if path.len() >= cx.depth || !cx.complete {
                    return;
                }
                for op in cx.alphabet {
                    let mut c2 = c.clone();
                    let mut m2 = m.clone();
                    let mut st2 = st.clone();
                    path.push(op.clone());
                    cx.count += 1;
                    if cx.count % 65536 == 0 && Instant::now() >= cx.deadline {
                        cx.complete = false;
                    }
                    match step(&mut c2, &mut m2, op, &mut st2, cx.cost) {
                        Ok(()) => {
                            if path.len() > cx.count_from_len
                                && st2.pushes >= 3
                                && (st2.spilled || st2.rejected > 0 || st2.clear_reuse)
                            {
                                cx.nontrivial += 1;
                            }
                            if path.len() == cx.depth {
                                let a = &mut cx.agg;
                                a.spilled |= st2.spilled;
                                a.chonk |= st2.chonk;
                                a.zero_stride |= st2.zero_stride;
                                a.saturated |= st2.saturated;
                                a.clear_reuse |= st2.clear_reuse;
                                a.small_after_large |= st2.small_after_large;
                                a.big_second |= st2.big_second;
                                a.break_after_saturation |= st2.break_after_saturation;
                                a.rejected += st2.rejected;
                            }
                            dfs(cx, &c2, &m2, &st2, path);
                        }
                        Err(e) => {
                            let cls = message_class(&e);
                            if cx.sigs.insert(cls) {
                                cx.viol.push((e, path.clone()));
                            }
                        }
                    }
                    path.pop();
                }
            }
            let mut cx = Ctx {
                alphabet: &alphabet,
                depth,
                cost,
                count_from_len,
                count: 0,
                nontrivial: 0,
                sigs: HashSet::new(),
                viol: Vec::new(),
                deadline,
                complete: true,
                agg: IStats::default(),
            };
            // first symbol fixed by this unit
            let mut c = C::default();
            let mut m = Model::default();
            let mut st = IStats::default();
            let mut path = vec![alphabet[first].clone()];
            cx.count += 1;
            match step(&mut c, &mut m, &alphabet[first], &mut st, cost) {
                Ok(()) => dfs::<C>(&mut cx, &c, &m, &st, &mut path),
                Err(e) => cx.viol.push((e, path.clone())),
            }
            p.evaluations += cx.count;
            // every enumerated sequence is distinct by construction; count the non-trivial ones
            p.nontrivial_enumerated += cx.nontrivial;
            record_classes(p, &cx.agg, C::NAME);
            p.exhaustive.push(json!({"space": uname, "alphabet": alphabet.len(), "max_len": depth, "cases": cx.count, "complete": cx.complete}));
            if !cx.complete {
                p.incomplete.push(format!("{uname}: enumeration stopped at the deadline"));
            }
            if first == 1 && p.samples.is_empty() {
                p.samples.push(json!({"engine": "index", "container": C::NAME, "note": "every sequence over the alphabet up to the depth is enumerated; example", "ops": serde_json::to_value(&[alphabet[0].clone(), alphabet[2].clone(), alphabet[4].clone(), alphabet[4].clone(), alphabet[7].clone()]).unwrap()}));
            }
            for (msg, ops) in cx.viol {
                // the depth-first order is not shortlex: minimise what was found
                let want = message_class(&msg);
                let ops = shrink_ops(ops, |cand| {
                    let mut st = IStats::default();
                    matches!(run_ops::<C>(cand, cost, &mut st), Err(m) if message_class(&m) == want)
                });
                let mut st = IStats::default();
                let msg = run_ops::<C>(&ops, cost, &mut st).err().unwrap_or(msg);
                p.violations.push(Violation {
                    property: property.to_string(),
                    engine: "index".into(),
                    spec: C::NAME.into(),
                    variant: "exh".into(),
                    signature: signature(property, &format!("index:{}", C::NAME), &msg),
                    message: msg,
                    size: ops.len(),
                    case: case_json::<C>(&ops, cost),
                });
            }
        }),
    }
}

/// Decode a random op sequence built from pattern fragments.
pub fn decode_ops(t: &mut Tape, max_elems: usize) -> Vec<IOp> {
    let mut ops = Vec::new();
    let mut elems = 0usize;
    let mut big_runs = 0usize;
    let special = |t: &mut Tape| -> usize {
        match t.below(12) {
            0 => 0,
            1 => 1,
            2 => u32::MAX as usize,
            3 => u32::MAX as usize + 1,
            4 => 1usize << 63,
            5 => usize::MAX,
            6 => (1usize << 63) - 1,
            7 => usize::MAX / 2 + 1,
            8 => t.u8() as usize,
            9 => t.u16() as usize,
            10 => t.u32() as usize,
            _ => t.u64() as usize,
        }
    };
    // after a very long run only a short tail follows (every op re-checks the whole container)
    let mut tail: Option<usize> = None;
    while !t.exhausted() && elems < max_elems.max(1) && ops.len() < 400 {
        if let Some(left) = tail.as_mut() {
            if *left == 0 {
                break;
            }
            *left -= 1;
            match t.below(6) {
                0 | 1 => ops.push(IOp::Clear),
                2 | 3 => ops.push(IOp::Push(special(t))),
                4 => ops.push(IOp::Push(0)),
                _ => ops.push(IOp::Extend((0..t.below(5)).map(|i| i * 3).collect())),
            }
            continue;
        }
        match t.below(12) {
            0 | 1 | 2 => {
                // arithmetic run, possibly starting at 0
                let start = if t.bool() { 0 } else { special(t) };
                let stride = match t.below(6) {
                    0 => 0,
                    1 => 1,
                    2 => t.u8() as usize,
                    3 => t.u32() as usize,
                    4 => usize::MAX / 3,
                    _ => special(t),
                };
                // at most one very long run per case, followed by a short tail of clears and pushes
                let n = if big_runs < 1 && t.chance(6) {
                    big_runs += 1;
                    tail = Some(2 + t.below(6));
                    if crate::spec::light() {
                        // under the coverage-guided fuzzer: shorter (executions stay fast)
                        [4095usize, 4096, 4097, 5000][t.below(4)]
                    } else {
                        [65535usize, 65536, 65537, 70000][t.below(4)]
                    }
                } else {
                    t.len(6, 300)
                };
                let mut xs = Vec::with_capacity(n);
                let mut v = start;
                for _ in 0..n {
                    xs.push(v);
                    v = v.wrapping_add(stride);
                }
                elems += n.min(300);
                // very long runs only as one extend (a per-element push re-checks the whole
                // container every time: quadratic)
                if n > 1000 || t.bool() {
                    ops.push(IOp::Extend(xs));
                } else {
                    ops.extend(xs.into_iter().map(IOp::Push));
                }
            }
            3 | 4 => {
                // repeat run of the previous value (saturation)
                let last = ops.iter().rev().find_map(|o| match o {
                    IOp::Push(x) => Some(*x),
                    IOp::Extend(xs) => xs.last().copied(),
                    _ => None,
                });
                let v = last.unwrap_or(0);
                let n = t.len(4, 100);
                elems += n;
                ops.extend((0..n).map(|_| IOp::Push(v)));
            }
            5 | 6 | 7 => {
                ops.push(IOp::Push(special(t)));
                elems += 1;
            }
            8 => ops.push(IOp::Clear),
            9 => ops.push(IOp::Reserve(t.below(64))),
            10 => ops.push(IOp::Serde),
            _ => ops.push(IOp::CloneSelf),
        }
    }
    ops
}

pub fn random_unit<C: Subject + Send + 'static>(
    property: &'static str,
    cases: u32,
    max_elems: usize,
    seed: u64,
    cost: bool,
) -> Unit {
    let name = format!("index:{}#random", C::NAME);
    let uname = name.clone();
    Unit {
        name,
        run: Box::new(move |p: &mut Partial, _deadline: Instant| {
            let seed = derive_seed(seed, &[property, "index-random", C::NAME]);
            let mut evals = 0u64;
            let mut failed = false;
            let mut local = Partial::default();
            let mut sample = true;
            let found = drive_tapes(seed, cases, 1200, |tape| {
                let ops = decode_ops(&mut Tape::new(tape), max_elems);
                let mut st = IStats::default();
                let r = run_ops::<C>(&ops, cost, &mut st);
                if !failed {
                    evals += 1;
                    record_classes(&mut local, &st, C::NAME);
                    if nontrivial(&ops, &st) {
                        let h = fnv1a(serde_json::to_string(&ops).unwrap().as_bytes()) ^ fnv1a(uname.as_bytes());
                        if local.nontrivial.insert(h) && sample && ops.len() <= 10 {
                            sample = false;
                            local.samples.push(case_json::<C>(&ops, cost));
                        }
                    }
                    failed = r.is_err();
                }
                r
            });
            local.evaluations = evals;
            if let Some((tape, msg)) = found {
                let ops = decode_ops(&mut Tape::new(&tape), max_elems);
                let want = message_class(&msg);
                let shrunk = shrink_ops(ops, |cand| {
                    let mut st = IStats::default();
                    matches!(run_ops::<C>(cand, cost, &mut st), Err(m) if message_class(&m) == want)
                });
                let mut st = IStats::default();
                let final_msg = run_ops::<C>(&shrunk, cost, &mut st).err().unwrap_or(msg);
                local.violations.push(Violation {
                    property: property.to_string(),
                    engine: "index".into(),
                    spec: C::NAME.into(),
                    variant: "random".into(),
                    signature: signature(property, &format!("index:{}", C::NAME), &final_msg),
                    message: final_msg,
                    size: shrunk.len(),
                    case: case_json::<C>(&shrunk, cost),
                });
            }
            p.merge(local);
        }),
    }
}

/// Expand extends into pushes, delete chunks, then lower values.
pub fn shrink_ops(ops: Vec<IOp>, mut fails: impl FnMut(&[IOp]) -> bool) -> Vec<IOp> {
    let mut cur = ops;
    let expanded: Vec<IOp> = cur
        .iter()
        .flat_map(|o| match o {
            // (very long extends stay whole: per-element pushes re-check the container every time)
            IOp::Extend(xs) if xs.len() <= 200 => xs.as_slice().iter().map(|x| IOp::Push(*x)).collect::<Vec<_>>(),
            o => vec![o.clone()],
        })
        .collect();
    if expanded.len() != cur.len() && fails(&expanded) {
        cur = expanded;
    }
    let mut budget = 6000usize;
    let mut progress = true;
    while progress && budget > 0 {
        progress = false;
        let mut chunk = (cur.len() / 2).max(1);
        loop {
            let mut i = 0;
            while i < cur.len() && budget > 0 {
                let end = (i + chunk).min(cur.len());
                let mut cand = cur.clone();
                cand.drain(i..end);
                budget -= 1;
                if fails(&cand) {
                    cur = cand;
                    progress = true;
                } else {
                    i += chunk;
                }
            }
            if chunk == 1 || budget == 0 {
                break;
            }
            chunk /= 2;
        }
        // halve long extends
        for i in 0..cur.len() {
            while budget > 0 {
                let IOp::Extend(xs) = &cur[i] else { break };
                if xs.len() < 2 {
                    break;
                }
                let mut cand = cur.clone();
                cand[i] = IOp::Extend(xs[..xs.len() / 2].to_vec());
                budget -= 1;
                if fails(&cand) {
                    cur = cand;
                    progress = true;
                } else {
                    break;
                }
            }
        }
        for i in 0..cur.len() {
            if budget == 0 {
                break;
            }
            if let IOp::Push(x) = cur[i] {
                for y in [0usize, 1, 2, x / 2, x.saturating_sub(1)] {
                    if y < x && budget > 0 {
                        let mut cand = cur.clone();
                        cand[i] = IOp::Push(y);
                        budget -= 1;
                        if fails(&cand) {
                            cur = cand;
                            progress = true;
                            break;
                        }
                    }
                }
            }
        }
    }
    cur
}

pub fn alphabet_ops(symbols: &[usize]) -> Vec<IOp> {
    let mut a: Vec<IOp> = symbols.iter().map(|x| IOp::Push(*x)).collect();
    a.push(IOp::Clear);
    a
}

/// All units of C05 (cost = false) or C19 (cost = true).
pub fn units(property: &'static str, thorough: bool, seed: u64, cost: bool) -> Vec<Unit> {
    let mut u = Vec::new();
    let full = alphabet_ops(&ALPHABET);
    let depth = if thorough { 7 } else { 6 };
    for first in 0..full.len() {
        u.push(exhaustive_unit::<Stride>(property, first, depth, full.clone(), cost, 0));
        u.push(exhaustive_unit::<IndexOptimized>(property, first, depth, full.clone(), cost, 0));
        u.push(exhaustive_unit::<IL>(property, first, depth, full.clone(), cost, 0));
        if !cost {
            u.push(exhaustive_unit::<Vec<usize>>(property, first, depth.min(5), full.clone(), cost, 0));
        }
    }
    if thorough {
        // one level deeper on the sub-alphabet that carries the overflow / switch transitions
        let sub = alphabet_ops(&[0, 2, 4, 1usize << 63, u32::MAX as usize + 1]);
        for first in 0..sub.len() {
            u.push(exhaustive_unit::<Stride>(property, first, 9, sub.clone(), cost, 7));
            u.push(exhaustive_unit::<IndexOptimized>(property, first, 9, sub.clone(), cost, 7));
        }
    }
    let cases = if thorough { 30000 } else { 5000 };
    u.push(random_unit::<Stride>(property, cases, 2000, seed, cost));
    u.push(random_unit::<IndexOptimized>(property, cases, 2000, seed, cost));
    u.push(random_unit::<IL>(property, cases, 2000, seed, cost));
    u.push(random_unit::<Vec<usize>>(property, cases / 4, 2000, seed, cost));
    u
}

pub fn replay(case: &Value) -> Result<(), String> {
    let ops: Vec<IOp> = serde_json::from_value(case["ops"].clone()).map_err(|e| e.to_string())?;
    let cost = case["cost"].as_bool().unwrap_or(false);
    let mut st = IStats::default();
    match case["container"].as_str().unwrap_or("") {
        "Stride" => run_ops::<Stride>(&ops, cost, &mut st),
        "IndexOptimized" => run_ops::<IndexOptimized>(&ops, cost, &mut st),
        "IndexList" => run_ops::<IL>(&ops, cost, &mut st),
        "Vec<usize>" => run_ops::<Vec<usize>>(&ops, cost, &mut st),
        other => Err(format!("unknown container {other}")),
    }
}
