//! IntoOwned laws and region-to-region copies (C14), on every catalogued composition.

use std::time::Instant;

use flatcontainer::{IntoOwned, Region};
use serde::de::DeserializeOwned;
use serde::{Deserialize, Serialize};
use serde_json::{json, Value};

use crate::catalogue::{self, Visitor};
use crate::runner::*;
use crate::spec::*;
use crate::tape::{fnv1a, Tape};
use crate::util::{guard, Counters};

#[derive(Clone, Debug, PartialEq, Eq, Hash, Serialize, Deserialize)]
#[serde(bound = "V: Serialize + DeserializeOwned")]
pub struct LawsCase<V> {
    /// contents of the source region, in push order
    pub items: Vec<V>,
    /// which item is read
    pub k: usize,
    /// prior contents of the clone_onto target
    pub prior: V,
    /// prior contents of the destination region of the copy
    pub dst_items: Vec<V>,
}

pub fn decode<S: Spec>(t: &mut Tape) -> LawsCase<S::V> {
    let gp = if t.chance(64) { Gp::small() } else { Gp::normal() };
    let n = 1 + t.below(5);
    let items: Vec<S::V> = (0..n).map(|_| S::gen(t, &gp)).collect();
    let k = t.below(n);
    let prior = match t.below(4) {
        0 => items[t.below(n)].clone(),
        _ => S::gen(t, &gp),
    };
    let m = t.below(4);
    let dst_items = (0..m).map(|_| S::gen(t, &gp)).collect();
    LawsCase { items, k, prior, dst_items }
}

pub fn run<S: Spec>(case: &LawsCase<S::V>, ev: &mut Counters) -> Result<(), String> {
    if case.items.is_empty() {
        return Ok(());
    }
    run_variant::<S>(case, false, ev)?;
    if S::CODED {
        // the same laws on items of a trained (dictionary / Huffman encoded) region
        let refs: Vec<&S::V> = case.items.iter().collect();
        if case.items.iter().all(|v| S::accepts(&refs, v)) {
            run_variant::<S>(case, true, ev).map_err(|e| format!("[trained region] {e}"))?;
            ev.hit("trained-source-region");
        }
    }
    Ok(())
}

fn run_variant<S: Spec>(case: &LawsCase<S::V>, trained: bool, ev: &mut Counters) -> Result<(), String> {
    let k = case.k.min(case.items.len() - 1);
    let v = &case.items[k];
    let mut cx = Cx::default();
    // source region
    let mut r = S::R::default();
    let mut idxs = Vec::new();
    for x in &case.items {
        let rr = &mut r;
        let i = guard(|| S::push_via(&mut RegionSink(rr), x, &mut Forms::canonical())).map_err(|p| format!("push panicked: {p}"))?;
        idxs.push(i);
    }
    let training = if trained { Some(r) } else { None };
    let mut r = match &training {
        None => std::mem::take(&mut S::R::default()),
        Some(t0) => guard(|| S::R::merge_regions(std::iter::once(t0))).map_err(|p| format!("merge_regions panicked: {p}"))?,
    };
    if trained {
        idxs.clear();
        for x in &case.items {
            let rr = &mut r;
            let i = guard(|| S::push_via(&mut RegionSink(rr), x, &mut Forms::canonical())).map_err(|p| format!("push of a covered value into the trained region panicked: {p}"))?;
            idxs.push(i);
        }
    } else {
        // rebuild the untrained source (the first region was consumed as training data holder)
        for x in &case.items {
            let rr = &mut r;
            let _ = guard(|| S::push_via(&mut RegionSink(rr), x, &mut Forms::canonical())).map_err(|p| format!("push panicked: {p}"))?;
        }
    }
    let idx = idxs[k];
    cx.has_successor = k + 1 < case.items.len();
    // into_owned (inside check), on the region-backed item
    guard(|| S::check(r.index(idx), v, &mut cx)).map_err(|p| format!("reading the item panicked: {p}"))?.map_err(|e| format!("region-backed item: {e}"))?;
    // borrow_as(&into_owned(x))
    let o: Own<S> = guard(|| IntoOwned::into_owned(r.index(idx))).map_err(|p| format!("into_owned panicked: {p}"))?;
    if S::unowned(&o) != *v {
        return Err(format!("into_owned(x) = {:?}, pushed {:?}", S::unowned(&o), v));
    }
    cx.has_successor = false;
    guard(|| {
        let b: RI<'_, S> = IntoOwned::borrow_as(&o);
        S::check(b, v, &mut cx)
    })
    .map_err(|p| format!("borrow_as(&into_owned(x)) panicked when read: {p}"))?
    .map_err(|e| format!("borrow_as(&into_owned(x)): {e}"))?;
    // reborrow
    guard(|| S::check(S::R::reborrow(r.index(idx)), v, &mut cx)).map_err(|p| format!("reborrow panicked: {p}"))?.map_err(|e| format!("reborrow(x): {e}"))?;
    // clone_onto, from both representations, over arbitrary prior contents
    if case.prior != *v {
        ev.hit("clone_onto-target-differs");
    }
    for (rep, from_region) in [("region-backed", true), ("owned-borrowed", false)] {
        let mut t: Own<S> = S::owned(&case.prior);
        guard(|| {
            if from_region {
                IntoOwned::clone_onto(r.index(idx), &mut t)
            } else {
                let b: RI<'_, S> = IntoOwned::borrow_as(&o);
                IntoOwned::clone_onto(b, &mut t)
            }
        })
        .map_err(|p| format!("clone_onto ({rep}) panicked: {p}"))?;
        let got = S::unowned(&t);
        if got != *v {
            return Err(format!(
                "clone_onto ({rep} item {:?}) onto a target holding {:?} left {:?}",
                v, case.prior, got
            ));
        }
    }
    // region-to-region copies into a region with its own history
    let mut passes = vec![("region-backed", true, false), ("owned-borrowed", false, false)];
    if training.is_some() {
        // encoded -> encoded and borrowed -> encoded
        passes.push(("region-backed", true, true));
        passes.push(("owned-borrowed", false, true));
    }
    for (rep, from_region, dst_trained) in passes {
        // destination: a default region, or a region trained on the same statistics
        let mut r2 = match (&training, dst_trained) {
            (Some(t0), true) => guard(|| S::R::merge_regions(std::iter::once(t0))).map_err(|p| format!("merge_regions panicked: {p}"))?,
            _ => S::R::default(),
        };
        let mut dst_model: Vec<(Idx<S>, &S::V)> = Vec::new();
        for x in &case.dst_items {
            if dst_trained {
                let refs: Vec<&S::V> = case.items.iter().collect();
                if !S::accepts(&refs, x) {
                    continue;
                }
            }
            let rr = &mut r2;
            let i = guard(|| S::push_via(&mut RegionSink(rr), x, &mut Forms::canonical())).map_err(|p| format!("push panicked: {p}"))?;
            dst_model.push((i, x));
        }
        let i2 = {
            let rr = &mut r2;
            guard(|| {
                if from_region {
                    S::push_read(&mut RegionSink(rr), r.index(idx))
                } else {
                    let b: RI<'_, S> = IntoOwned::borrow_as(&o);
                    S::push_read(&mut RegionSink(rr), b)
                }
            })
            .map_err(|p| format!("pushing the {rep} item into another region panicked: {p}"))?
        };
        cx.has_successor = false;
        guard(|| S::check(r2.index(i2), v, &mut cx))
            .map_err(|p| format!("reading the copy of the {rep} item panicked: {p}"))?
            .map_err(|e| format!("copy of the {rep} item into another region: {e}"))?;
        for (j, (i, x)) in dst_model.iter().enumerate() {
            cx.has_successor = true;
            guard(|| S::check(r2.index(*i), x, &mut cx))
                .map_err(|p| format!("destination item #{j} panicked after the copy: {p}"))?
                .map_err(|e| format!("destination item #{j} changed by the copy: {e}"))?;
        }
        ev.hit("region-to-region-copy");
        if !case.dst_items.is_empty() {
            ev.hit("copy-into-populated-region");
        }
    }
    // the source is unchanged
    for (j, (i, x)) in idxs.iter().zip(case.items.iter()).enumerate() {
        cx.has_successor = j + 1 < idxs.len();
        guard(|| S::check(r.index(*i), x, &mut cx)).map_err(|p| format!("source item #{j} panicked afterwards: {p}"))?.map_err(|e| format!("source item #{j} changed: {e}"))?;
    }
    Ok(())
}

fn simplify<S: Spec>(c: &LawsCase<S::V>) -> Vec<LawsCase<S::V>> {
    let mut out = Vec::new();
    if !c.dst_items.is_empty() {
        let mut d = c.clone();
        d.dst_items.pop();
        out.push(d);
    }
    if c.items.len() > 1 {
        for j in 0..c.items.len() {
            if j != c.k {
                let mut d = c.clone();
                d.items.remove(j);
                if j < d.k {
                    d.k -= 1;
                }
                out.push(d);
                break;
            }
        }
    }
    for w in S::shrink(&c.prior).into_iter().take(6) {
        let mut d = c.clone();
        d.prior = w;
        out.push(d);
    }
    if c.k < c.items.len() {
        for w in S::shrink(&c.items[c.k]).into_iter().take(6) {
            let mut d = c.clone();
            d.items[c.k] = w;
            out.push(d);
        }
    }
    out
}

fn unit<S: Spec>(property: &'static str, cases: u32, seed: u64) -> Unit {
    let name = format!("laws:{}", S::name());
    let uname = name.clone();
    Unit {
        name,
        run: Box::new(move |p: &mut Partial, _deadline: Instant| {
            let seed = derive_seed(seed, &[property, "laws", &uname]);
            let mut evals = 0u64;
            let mut failed = false;
            let mut local = Partial::default();
            let mut sample = true;
            let found = drive_tapes(seed, cases, 256, |tape| {
                let case = decode::<S>(&mut Tape::new(tape));
                let mut ev = Counters::default();
                let r = run::<S>(&case, &mut ev);
                if !failed {
                    evals += 1;
                    local.classes.merge(&ev);
                    if ev.get("clone_onto-target-differs") > 0 {
                        let h = fnv1a(serde_json::to_string(&case).unwrap_or_default().as_bytes()) ^ fnv1a(uname.as_bytes());
                        if local.nontrivial.insert(h) && sample && case.items.len() <= 2 {
                            sample = false;
                            local.samples.push(json!({"engine": "laws", "spec": S::name(), "case": serde_json::to_value(&case).unwrap_or(Value::Null)}));
                        }
                    }
                    failed = r.is_err();
                }
                r
            });
            local.evaluations = evals;
            if let Some((tape, msg)) = found {
                let mut case = decode::<S>(&mut Tape::new(&tape));
                let want = message_class(&msg);
                let mut budget = 1500;
                loop {
                    let mut improved = false;
                    for cand in simplify::<S>(&case) {
                        if budget == 0 {
                            break;
                        }
                        budget -= 1;
                        let mut ev = Counters::default();
                        if matches!(run::<S>(&cand, &mut ev), Err(m) if message_class(&m) == want) {
                            case = cand;
                            improved = true;
                            break;
                        }
                    }
                    if !improved || budget == 0 {
                        break;
                    }
                }
                let mut ev = Counters::default();
                let final_msg = run::<S>(&case, &mut ev).err().unwrap_or(msg);
                local.violations.push(Violation {
                    property: property.to_string(),
                    engine: "laws".into(),
                    spec: S::name(),
                    variant: "laws".into(),
                    signature: signature(property, "laws", &final_msg),
                    message: final_msg,
                    size: case.items.len() + case.dst_items.len(),
                    case: json!({"engine": "laws", "spec": S::name(), "case": serde_json::to_value(&case).unwrap_or(Value::Null)}),
                });
            }
            p.merge(local);
        }),
    }
}

struct Collector {
    property: &'static str,
    cases: u32,
    seed: u64,
    units: Vec<Unit>,
}
impl Visitor for Collector {
    fn visit<S: Spec>(&mut self, _caps: Caps<S::R>) {
        self.units.push(unit::<S>(self.property, self.cases, self.seed));
    }
}

pub fn units(property: &'static str, cases: u32, seed: u64) -> Vec<Unit> {
    let mut c = Collector { property, cases, seed, units: Vec::new() };
    catalogue::all(&mut c);
    c.units
}

struct Replayer<'a> {
    spec: &'a str,
    case: &'a Value,
    result: Option<Result<(), String>>,
}
impl<'a> Visitor for Replayer<'a> {
    fn visit<S: Spec>(&mut self, _caps: Caps<S::R>) {
        if self.result.is_some() || S::name() != self.spec {
            return;
        }
        let case: LawsCase<S::V> = match serde_json::from_value(self.case.clone()) {
            Ok(c) => c,
            Err(e) => {
                self.result = Some(Err(format!("cannot decode case: {e}")));
                return;
            }
        };
        let mut ev = Counters::default();
        self.result = Some(run::<S>(&case, &mut ev));
    }
}

pub fn replay(case: &Value) -> Result<(), String> {
    let mut r = Replayer { spec: case["spec"].as_str().unwrap_or(""), case: &case["case"], result: None };
    catalogue::all(&mut r);
    r.result.unwrap_or_else(|| Err("composition not in the catalogue".into()))
}
