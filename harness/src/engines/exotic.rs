//! Input forms that reach a child's `&&T` / array / iterator impls *through* a parent (C20, C01):
//! concrete compositions, every form pushed onto its own fresh region in the same state and
//! compared with the canonical form: equal index, equal Σused, equal reads.

use std::time::Instant;

use flatcontainer::impls::deduplicate::ConsecutiveIndexPairs;
use flatcontainer::impls::tuple::TupleABRegion;
use flatcontainer::{
    ColumnsRegion, MirrorRegion, OptionRegion, OwnedRegion, Push, PushIter, Region, ResultRegion,
    SliceRegion, StringRegion,
};
use serde_json::json;

use crate::leaves::gen_string;
use crate::runner::*;
use crate::spec::{class_hit, used_sum, Gp};
use crate::tape::{fnv1a, Tape};
use crate::util::guard;

#[derive(Clone, Debug, serde::Serialize, serde::Deserialize)]
pub struct ExoticCase {
    /// items already in the region (pushed canonically) before the compared push
    pub prefix: Vec<Vec<String>>,
    pub value: Vec<String>,
}

pub fn decode(t: &mut Tape) -> ExoticCase {
    let gp = Gp::normal();
    let mut row = |t: &mut Tape| -> Vec<String> {
        let n = t.below(5);
        (0..n).map(|_| gen_string(t, &gp.deeper())).collect()
    };
    let np = t.below(3);
    let prefix = (0..np).map(|_| row(t)).collect();
    let value = row(t);
    ExoticCase { prefix, value }
}

/// Push `value` through each closure onto a clone-equivalent fresh region (rebuilt from the
/// prefix), and compare (index, Σused, read-back) with the first (canonical) closure.
fn compare<R, I, X>(
    what: &str,
    prefix: impl Fn(&mut R),
    forms: Vec<(&'static str, Box<dyn Fn(&mut R) -> I + '_>)>,
    read: impl Fn(&R, I) -> X,
    expect: &X,
) -> Result<(), String>
where
    R: Region + Default,
    I: PartialEq + std::fmt::Debug + Copy,
    X: PartialEq + std::fmt::Debug,
{
    let mut canon: Option<(I, usize)> = None;
    for (name, f) in forms {
        let mut r = R::default();
        prefix(&mut r);
        let idx = guard(|| f(&mut r)).map_err(|p| format!("{what}: form {name} panicked: {p}"))?;
        let used = used_sum(&r);
        let got = guard(|| read(&r, idx)).map_err(|p| format!("{what}: reading after form {name} panicked: {p}"))?;
        if got != *expect {
            return Err(format!("{what}: form {name} reads {:?}, pushed {:?}", got, expect));
        }
        class_hit(&format!("exotic:{what}:{name}"));
        match canon {
            None => canon = Some((idx, used)),
            Some((ci, cu)) => {
                if ci != idx {
                    return Err(format!("{what}: form {name} returned index {:?}, the canonical form returned {:?}", idx, ci));
                }
                if cu != used {
                    return Err(format!("{what}: form {name} stored {used} bytes in total, the canonical form {cu}"));
                }
            }
        }
    }
    Ok(())
}

pub fn run(c: &ExoticCase) -> Result<(), String> {
    let v = &c.value;
    let strs: Vec<&str> = v.iter().map(|s| s.as_str()).collect();
    let bytes: Vec<Vec<u8>> = v.iter().map(|s| s.as_bytes().to_vec()).collect();
    let byte_refs: Vec<&[u8]> = bytes.iter().map(|b| b.as_slice()).collect();
    let lens: Vec<u8> = v.iter().map(|s| s.len() as u8).collect();
    let len_refs: Vec<&u8> = lens.iter().collect();

    // SliceRegion<StringRegion>
    {
        type R = SliceRegion<StringRegion>;
        let prefix = |r: &mut R| {
            for p in &c.prefix {
                let _ = r.push(p);
            }
        };
        let mut forms: Vec<(&'static str, Box<dyn Fn(&mut R) -> (usize, usize) + '_>)> = vec![
            ("&Vec<String>", Box::new(|r| r.push(v))),
            ("Vec<&str>", Box::new(|r| r.push(strs.clone()))),
            ("&Vec<&str>", Box::new(|r| r.push(&strs))),
            ("&[&str]", Box::new(|r| r.push(strs.as_slice()))),
            ("&&Vec<&str>", Box::new(|r| r.push(&&strs))),
            ("Vec<String>", Box::new(|r| r.push(v.clone()))),
            ("&[String]", Box::new(|r| r.push(v.as_slice()))),
        ];
        if let Ok(a) = <[&str; 2]>::try_from(strs.clone()) {
            forms.push(("[&str;2]", Box::new(move |r| r.push(a))));
            forms.push(("&[&str;2]", Box::new(move |r| r.push(&a))));
            forms.push(("&&[&str;2]", Box::new(move |r| r.push(&&a))));
        }
        compare::<R, _, Vec<String>>(
            "Slice<Str>",
            prefix,
            forms,
            |r, i| r.index(i).iter().map(|s| s.to_string()).collect(),
            v,
        )?;
    }
    // SliceRegion<OwnedRegion<u8>>
    {
        type R = SliceRegion<OwnedRegion<u8>>;
        let prefix = |r: &mut R| {
            for p in &c.prefix {
                let b: Vec<Vec<u8>> = p.iter().map(|s| s.as_bytes().to_vec()).collect();
                let _ = r.push(&b);
            }
        };
        let mut forms: Vec<(&'static str, Box<dyn Fn(&mut R) -> (usize, usize) + '_>)> = vec![
            ("&Vec<Vec<u8>>", Box::new(|r| r.push(&bytes))),
            ("Vec<Vec<u8>>", Box::new(|r| r.push(bytes.clone()))),
            ("Vec<&[u8]>", Box::new(|r| r.push(byte_refs.clone()))),
            ("&[&[u8]]", Box::new(|r| r.push(byte_refs.as_slice()))),
            ("&Vec<&[u8]>", Box::new(|r| r.push(&byte_refs))),
            ("Vec<PushIter<Vec<u8>>>", Box::new(|r| r.push(bytes.iter().map(|b| PushIter(b.clone())).collect::<Vec<_>>()))),
        ];
        if bytes.iter().all(|b| b.len() == 1) {
            let arrs: Vec<[u8; 1]> = bytes.iter().map(|b| [b[0]]).collect();
            let a2 = arrs.clone();
            forms.push(("Vec<[u8;1]>", Box::new(move |r| r.push(arrs.clone()))));
            forms.push(("&[[u8;1]]", Box::new(move |r| r.push(a2.as_slice()))));
        }
        compare::<R, _, Vec<Vec<u8>>>(
            "Slice<Owned<u8>>",
            prefix,
            forms,
            |r, i| r.index(i).iter().map(|s| s.to_vec()).collect(),
            &bytes,
        )?;
    }
    // SliceRegion<MirrorRegion<u8>>
    {
        type R = SliceRegion<MirrorRegion<u8>>;
        let prefix = |r: &mut R| {
            for p in &c.prefix {
                let l: Vec<u8> = p.iter().map(|s| s.len() as u8).collect();
                let _ = r.push(&l);
            }
        };
        let forms: Vec<(&'static str, Box<dyn Fn(&mut R) -> (usize, usize) + '_>)> = vec![
            ("&Vec<u8>", Box::new(|r| r.push(&lens))),
            ("Vec<u8>", Box::new(|r| r.push(lens.clone()))),
            ("Vec<&u8>", Box::new(|r| r.push(len_refs.clone()))),
            ("&[&u8]", Box::new(|r| r.push(len_refs.as_slice()))),
            ("&Vec<&u8>", Box::new(|r| r.push(&len_refs))),
        ];
        compare::<R, _, Vec<u8>>("Slice<Mirror<u8>>", prefix, forms, |r, i| r.index(i).iter().collect(), &lens)?;
    }
    // ColumnsRegion<ConsecutiveIndexPairs<StringRegion>>
    {
        type R = ColumnsRegion<ConsecutiveIndexPairs<StringRegion>>;
        let prefix = |r: &mut R| {
            for p in &c.prefix {
                let _ = r.push(p);
            }
        };
        let mut forms: Vec<(&'static str, Box<dyn Fn(&mut R) -> usize + '_>)> = vec![
            ("&Vec<String>", Box::new(|r| r.push(v))),
            ("Vec<&str>", Box::new(|r| r.push(strs.clone()))),
            ("&Vec<&str>", Box::new(|r| r.push(&strs))),
            ("&[&str]", Box::new(|r| r.push(strs.as_slice()))),
            ("PushIter<Vec<&str>>", Box::new(|r| r.push(PushIter(strs.clone())))),
            ("PushIter<slice::Iter<String>>", Box::new(|r| r.push(PushIter(v.iter())))),
            ("Vec<String>", Box::new(|r| r.push(v.clone()))),
        ];
        if let Ok(a) = <[&str; 3]>::try_from(strs.clone()) {
            forms.push(("[&str;3]", Box::new(move |r| r.push(a))));
            forms.push(("&[&str;3]", Box::new(move |r| r.push(&a))));
        }
        compare::<R, _, Vec<String>>(
            "Columns<Cip<Str>>",
            prefix,
            forms,
            |r, i| (&r.index(i)).into_iter().map(|s| s.to_string()).collect(),
            v,
        )?;
    }
    // tuples, options, results over strings and bytes (first element of the value, if any)
    if let (Some(s0), Some(l0)) = (v.first(), lens.first()) {
        type T = TupleABRegion<StringRegion, MirrorRegion<u8>>;
        let forms: Vec<(&'static str, Box<dyn Fn(&mut T) -> ((usize, usize), u8) + '_>)> = vec![
            ("&(String,u8)", Box::new(|r| r.push(&(s0.clone(), *l0)))),
            ("(String,u8)", Box::new(|r| r.push((s0.clone(), *l0)))),
            ("(&str,u8)", Box::new(|r| r.push((s0.as_str(), *l0)))),
            ("(&str,&u8)", Box::new(|r| r.push((s0.as_str(), l0)))),
            ("(&String,&&u8)", Box::new(|r| r.push((s0, &l0)))),
            ("&(&str,u8)", Box::new(|r| r.push(&(s0.as_str(), *l0)))),
        ];
        compare::<T, _, (String, u8)>(
            "Tuple2<Str,Mirror<u8>>",
            |r| {
                let _ = r.push(("x", 1u8));
            },
            forms,
            |r, i| {
                let (a, b) = r.index(i);
                (a.to_string(), b)
            },
            &(s0.clone(), *l0),
        )?;
        type O = OptionRegion<StringRegion>;
        let forms: Vec<(&'static str, Box<dyn Fn(&mut O) -> Option<(usize, usize)> + '_>)> = vec![
            ("&Option<String>", Box::new(|r| r.push(&Some(s0.clone())))),
            ("Option<&str>", Box::new(|r| r.push(Some(s0.as_str())))),
            ("Option<&&str>", Box::new(|r| r.push(Some(&s0.as_str())))),
            ("&Option<&str>", Box::new(|r| r.push(&Some(s0.as_str())))),
            ("Option<&String>", Box::new(|r| r.push(Some(s0)))),
        ];
        compare::<O, _, Option<String>>("Option<Str>", |r| { let _ = r.push(Some("pad")); }, forms, |r, i| r.index(i).map(|s| s.to_string()), &Some(s0.clone()))?;
        type E = ResultRegion<StringRegion, OwnedRegion<u8>>;
        let b0 = s0.as_bytes().to_vec();
        let forms: Vec<(&'static str, Box<dyn Fn(&mut E) -> Result<(usize, usize), (usize, usize)> + '_>)> = vec![
            ("&Result<String,Vec<u8>>(Err)", Box::new(|r| r.push(&Result::<String, Vec<u8>>::Err(b0.clone())))),
            ("Result<&str,&[u8]>(Err)", Box::new(|r| r.push(Result::<&str, &[u8]>::Err(b0.as_slice())))),
            ("Result<&str,&&[u8]>(Err)", Box::new(|r| r.push(Result::<&str, &&[u8]>::Err(&b0.as_slice())))),
            ("Result<&str,Vec<u8>>(Err)", Box::new(|r| r.push(Result::<&str, Vec<u8>>::Err(b0.clone())))),
            ("Result<&str,&Vec<u8>>(Err)", Box::new(|r| r.push(Result::<&str, &Vec<u8>>::Err(&b0)))),
        ];
        compare::<E, _, Result<String, Vec<u8>>>(
            "Result<Str,Owned<u8>>",
            |r| {
                let _ = r.push(Result::<&str, &[u8]>::Ok("pad"));
                let _ = r.push(Result::<&str, &[u8]>::Err(b"p"));
            },
            forms,
            |r, i| r.index(i).map(|s| s.to_string()).map_err(|e| e.to_vec()),
            &Err(b0.clone()),
        )?;
    }
    Ok(())
}

pub fn unit(property: &'static str, cases: u32, seed: u64) -> Unit {
    Unit {
        name: "exotic-forms".into(),
        run: Box::new(move |p: &mut Partial, _deadline: Instant| {
            let seed = derive_seed(seed, &[property, "exotic"]);
            let mut evals = 0u64;
            let mut failed = false;
            let mut local = Partial::default();
            let found = drive_tapes(seed, cases, 200, |tape| {
                let c = decode(&mut Tape::new(tape));
                let r = run(&c);
                if !failed {
                    evals += 1;
                    if !c.value.is_empty() {
                        local.nontrivial.insert(fnv1a(serde_json::to_string(&c).unwrap().as_bytes()) ^ 0xE0);
                        if local.samples.is_empty() && c.value.len() <= 3 {
                            local.samples.push(json!({"engine": "exotic", "case": serde_json::to_value(&c).unwrap()}));
                        }
                    }
                    failed = r.is_err();
                }
                r
            });
            local.evaluations = evals;
            if let Some((tape, msg)) = found {
                let mut c = decode(&mut Tape::new(&tape));
                // shrink: drop prefix rows, drop / shorten value elements
                let want = message_class(&msg);
                let fails = |c: &ExoticCase| matches!(run(c), Err(m) if message_class(&m) == want);
                let mut progress = true;
                while progress {
                    progress = false;
                    let mut cands: Vec<ExoticCase> = Vec::new();
                    if !c.prefix.is_empty() {
                        let mut d = c.clone();
                        d.prefix.pop();
                        cands.push(d);
                    }
                    for i in 0..c.value.len() {
                        let mut d = c.clone();
                        d.value.remove(i);
                        cands.push(d);
                        if c.value[i].chars().count() > 1 {
                            let mut d = c.clone();
                            d.value[i] = c.value[i].chars().take(1).collect();
                            cands.push(d);
                        }
                    }
                    for d in cands {
                        if fails(&d) {
                            c = d;
                            progress = true;
                            break;
                        }
                    }
                }
                let final_msg = run(&c).err().unwrap_or(msg);
                local.violations.push(Violation {
                    property: property.to_string(),
                    engine: "exotic".into(),
                    spec: "concrete compositions".into(),
                    variant: "exotic".into(),
                    signature: signature(property, "exotic", &final_msg),
                    message: final_msg,
                    size: c.value.len() + c.prefix.len(),
                    case: json!({"engine": "exotic", "case": serde_json::to_value(&c).unwrap()}),
                });
            }
            p.merge(local);
        }),
    }
}

pub fn replay(case: &serde_json::Value) -> Result<(), String> {
    let c: ExoticCase = serde_json::from_value(case["case"].clone()).map_err(|e| e.to_string())?;
    run(&c)
}
