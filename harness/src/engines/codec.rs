//! Dictionary codec region (C07): exact bytes back or refusal, one-byte cost for dominating
//! strings, across generations of merge_regions and after clear.

use std::collections::{BTreeMap, BTreeSet};
use std::time::Instant;

use flatcontainer::impls::codec::{CodecRegion, DictionaryCodec};
use flatcontainer::{Push, Region};
use serde::{Deserialize, Serialize};
use serde_json::{json, Value};

use crate::runner::*;
use crate::spec::used_sum;
use crate::tape::{fnv1a, Tape};
use crate::util::{guard, Counters};

type R = CodecRegion<DictionaryCodec>;

#[derive(Clone, Debug, PartialEq, Eq, Hash, Serialize, Deserialize)]
pub enum COp {
    /// push into region `r`
    Push { r: u8, s: Vec<u8> },
    /// push `n` copies
    PushMany { r: u8, s: Vec<u8>, n: u16 },
    /// push `n` distinct strings `prefix ++ be16(i)` (crosses the summary's compaction)
    PushDistinct { r: u8, prefix: Vec<u8>, n: u16 },
    /// push one 2-byte string for every first byte in `from..=255` (leaves few or no free tags)
    PushAllFirstBytes { r: u8, from: u8 },
    /// region `dst` := merge_regions(srcs)
    Merge { dst: u8, srcs: Vec<u8> },
    Clear { r: u8 },
}

#[derive(Clone, Debug, PartialEq, Eq, Hash, Serialize, Deserialize)]
pub struct CodecCase {
    pub ops: Vec<COp>,
}

const NREG: usize = 4;

/// Reference model of one region.
#[derive(Default, Clone)]
struct Model {
    /// successful pushes since creation / clear (what the statistics were built from)
    pushed: Vec<Vec<u8>>,
    /// issued (index, value)
    items: Vec<((usize, usize), Vec<u8>)>,
    /// None = default / cleared (no dictionary, everything is a literal)
    dict: Option<DictModel>,
    /// total distinct strings ever summarised exceeds the exact regime
    lossy: bool,
}

#[derive(Clone)]
struct DictModel {
    /// first bytes observed in the source statistics
    observed: BTreeSet<u8>,
    /// exact merged counts (meaningful when !lossy)
    counts: BTreeMap<Vec<u8>, u64>,
    /// per source: (total pushes, counts) for the lossy-regime rule
    per_source: Vec<(u64, BTreeMap<Vec<u8>, u64>)>,
    lossy: bool,
}

impl DictModel {
    fn free_tags(&self) -> usize {
        256 - self.observed.len()
    }
    /// Sufficient condition for "must be stored in one byte".
    fn certainly_one_byte(&self, s: &[u8]) -> bool {
        if s.is_empty() || self.free_tags() == 0 {
            return false;
        }
        if !self.lossy {
            let Some(c) = self.counts.get(s) else { return false };
            // strictly fewer than F other non-empty strings have a count >= ours (ties count
            // against us, so any tie-break of the implementation is accepted)
            let rivals = self.counts.iter().filter(|(t, n)| !t.is_empty() && t.as_slice() != s && **n >= *c).count();
            rivals < self.free_tags()
        } else {
            // lossy summaries: only a string holding >= 3/4 of every (non-empty) source's pushes
            let mut any = false;
            for (total, counts) in &self.per_source {
                if *total == 0 {
                    continue;
                }
                any = true;
                let c = counts.get(s).copied().unwrap_or(0);
                if c * 4 < *total * 3 {
                    return false;
                }
            }
            any
        }
    }
    /// Inputs that must never be refused.
    fn must_accept(&self, s: &[u8]) -> bool {
        s.is_empty() || self.observed.contains(&s[0])
    }
}

#[derive(Default, Clone, Debug)]
pub struct CStats {
    pub ev: Counters,
    pub hits: usize,
    pub literals: usize,
}

struct World {
    regions: Vec<R>,
    models: Vec<Model>,
    /// merged regions remember their sources (generation counting only)
    recipe: Vec<Option<Vec<u8>>>,
}

fn read_back(r: &R, idx: (usize, usize), want: &[u8], what: &str) -> Result<(), String> {
    let got = guard(|| r.index(idx).to_vec()).map_err(|p| format!("{what}: reading index {:?} panicked: {p}", idx))?;
    if got != want {
        return Err(format!("{what}: index {:?} reads {:?}, pushed {:?}", idx, got, want));
    }
    Ok(())
}

fn push_one(w: &mut World, ri: usize, s: &[u8], st: &mut CStats) -> Result<(), String> {
    let used_before = used_sum(&w.regions[ri]);
    let (must_accept, one_byte, trained) = match &w.models[ri].dict {
        None => (true, false, false),
        Some(d) => (d.must_accept(s), d.certainly_one_byte(s), true),
    };
    let res = {
        let r = &mut w.regions[ri];
        guard(|| r.push(s))
    };
    match res {
        Err(p) => {
            if must_accept {
                return Err(format!(
                    "push of {:?} into a {} region was refused, but {}: {p}",
                    s,
                    if trained { "merged" } else { "default/cleared" },
                    if !trained { "a region without a dictionary stores everything literally" } else if s.is_empty() { "the empty string is always representable" } else { "its first byte occurs in the source statistics, so no tag can collide with it" }
                ));
            }
            st.ev.hit("refusal-allowed");
            // the region may be inconsistent after the unwinding: the whole case is re-run
            // from scratch without this operation
            Err("__refused__".into())
        }
        Ok(idx) => {
            let stored = used_sum(&w.regions[ri]).wrapping_sub(used_before);
            read_back(&w.regions[ri], idx, s, "the item just pushed")?;
            if stored > s.len() {
                return Err(format!("push of {:?} stored {stored} bytes, more than its length {}", s, s.len()));
            }
            if one_byte {
                st.ev.hit("one-byte-rule-applied");
                if stored != 1 {
                    return Err(format!(
                        "{:?} dominates the source statistics (count rank within the {} free tags) but was stored in {stored} bytes instead of 1",
                        s,
                        w.models[ri].dict.as_ref().map(|d| d.free_tags()).unwrap_or(0)
                    ));
                }
            }
            if !trained && stored != s.len() {
                return Err(format!("default/cleared region stored {stored} bytes for the {}-byte literal {:?}", s.len(), s));
            }
            if trained {
                if stored == 1 && s.len() > 1 {
                    st.hits += 1;
                } else {
                    st.literals += 1;
                    if !s.is_empty() {
                        if let Some(d) = &w.models[ri].dict {
                            if !d.observed.contains(&s[0]) {
                                st.ev.hit("accepted-literal-with-unobserved-first-byte");
                            }
                        }
                    }
                }
            }
            if s.is_empty() {
                st.ev.hit("empty-string-pushed");
            }
            if s.first() == Some(&255) {
                st.ev.hit("first-byte-255");
            }
            w.models[ri].pushed.push(s.to_vec());
            w.models[ri].items.push((idx, s.to_vec()));
            Ok(())
        }
    }
}

fn distinct_count(m: &Model) -> usize {
    let set: BTreeSet<&Vec<u8>> = m.pushed.iter().collect();
    set.len()
}

/// Run a case. An operation that is (permissibly) refused poisons its region, so the case is
/// re-run from scratch with that operation left out, until no refusal remains.
pub fn run_case(case: &CodecCase, st: &mut CStats) -> Result<(), String> {
    let mut skip: BTreeSet<usize> = BTreeSet::new();
    loop {
        let mut st2 = CStats::default();
        match run_case_skipping(case, &skip, &mut st2) {
            Err((k, e)) if e == "__refused__" => {
                st.ev.hit("refusal-allowed");
                skip.insert(k);
            }
            other => {
                st.ev.merge(&st2.ev);
                st.hits += st2.hits;
                st.literals += st2.literals;
                return other.map_err(|(_, e)| e);
            }
        }
    }
}

fn run_case_skipping(case: &CodecCase, skip: &BTreeSet<usize>, st: &mut CStats) -> Result<(), (usize, String)> {
    let mut w = World {
        regions: (0..NREG).map(|_| R::default()).collect(),
        models: (0..NREG).map(|_| Model::default()).collect(),
        recipe: vec![None; NREG],
    };
    for (k, op) in case.ops.iter().enumerate() {
        if skip.contains(&k) {
            continue;
        }
        let r = (|| -> Result<(), String> {
            match op {
                COp::Push { r, s } => push_one(&mut w, *r as usize % NREG, s, st)?,
                COp::PushMany { r, s, n } => {
                    for _ in 0..*n {
                        push_one(&mut w, *r as usize % NREG, s, st)?;
                    }
                }
                COp::PushDistinct { r, prefix, n } => {
                    for i in 0..*n {
                        let mut s = prefix.clone();
                        s.extend_from_slice(&i.to_be_bytes());
                        push_one(&mut w, *r as usize % NREG, &s, st)?;
                    }
                    if *n > 1024 {
                        st.ev.hit(">1024-distinct-strings-in-a-source");
                    }
                }
                COp::PushAllFirstBytes { r, from } => {
                    for b in *from..=255u8 {
                        push_one(&mut w, *r as usize % NREG, &[b, b'x'], st)?;
                    }
                    st.ev.hit("many-first-bytes-observed");
                }
                COp::Merge { dst, srcs } => {
                    let di = *dst as usize % NREG;
                    let srcs: Vec<u8> = srcs.iter().map(|s| (*s as usize % NREG) as u8).collect();
                    let refs: Vec<&R> = srcs.iter().map(|s| &w.regions[*s as usize]).collect();
                    let merged = guard(|| R::merge_regions(refs.iter().copied())).map_err(|p| format!("merge_regions panicked: {p}"))?;
                    drop(refs);
                    let mut observed = BTreeSet::new();
                    let mut counts: BTreeMap<Vec<u8>, u64> = BTreeMap::new();
                    let mut per_source = Vec::new();
                    let mut lossy = false;
                    for s in &srcs {
                        let m = &w.models[*s as usize];
                        let mut c: BTreeMap<Vec<u8>, u64> = BTreeMap::new();
                        for p in &m.pushed {
                            if let Some(b) = p.first() {
                                observed.insert(*b);
                            }
                            *c.entry(p.clone()).or_insert(0) += 1;
                            *counts.entry(p.clone()).or_insert(0) += 1;
                        }
                        if distinct_count(m) > 500 {
                            lossy = true;
                        }
                        per_source.push((m.pushed.len() as u64, c));
                    }
                    if counts.len() > 500 {
                        lossy = true;
                    }
                    let generation = srcs.iter().filter(|s| w.recipe[**s as usize].is_some()).count();
                    if generation > 0 {
                        st.ev.hit("generation>=2");
                    }
                    if srcs.is_empty() {
                        st.ev.hit("merge-from-0-sources");
                    }
                    if srcs.contains(&(di as u8)) {
                        st.ev.hit("merge-includes-own-ancestor");
                    }
                    if lossy {
                        st.ev.hit("lossy-summary");
                    }
                    w.regions[di] = merged;
                    w.models[di] = Model { pushed: Vec::new(), items: Vec::new(), dict: Some(DictModel { observed, counts, per_source, lossy }), lossy };
                    w.recipe[di] = Some(srcs);
                    // a merged region starts empty
                    if used_sum(&w.regions[di]) != 0 {
                        return Err(format!("a freshly merged region reports {} used bytes", used_sum(&w.regions[di])));
                    }
                }
                COp::Clear { r } => {
                    let ri = *r as usize % NREG;
                    let had_dict = w.models[ri].dict.is_some();
                    let reg = &mut w.regions[ri];
                    guard(|| reg.clear()).map_err(|p| format!("clear panicked: {p}"))?;
                    w.models[ri] = Model::default();
                    w.recipe[ri] = None;
                    if had_dict {
                        st.ev.hit("trained-region-cleared");
                    }
                }
            }
            // every issued index of every region still reads its bytes
            for (ri, m) in w.models.iter().enumerate() {
                // cap the re-read work for the very long distinct runs
                let n = m.items.len();
                let step = if n > 400 { n / 200 } else { 1 };
                let mut i = 0;
                while i < n {
                    let (idx, s) = &m.items[i];
                    read_back(&w.regions[ri], *idx, s, &format!("region {ri}, item #{i} of {n}"))?;
                    i += step;
                }
            }
            Ok(())
        })();
        match r {
            Ok(()) => {}
            Err(e) if e == "__refused__" => return Err((k, e)),
            Err(e) => return Err((k, format!("op #{k} {}: {e}", brief(op)))),
        }
    }
    Ok(())
}

fn brief(op: &COp) -> String {
    match op {
        COp::Push { r, s } => format!("Push(r{r}, {} bytes)", s.len()),
        COp::PushMany { r, s, n } => format!("PushMany(r{r}, {} bytes x{n})", s.len()),
        COp::PushDistinct { r, n, .. } => format!("PushDistinct(r{r}, {n})"),
        COp::PushAllFirstBytes { r, from } => format!("PushAllFirstBytes(r{r}, {from}..)"),
        COp::Merge { dst, srcs } => format!("Merge(r{dst} <- {:?})", srcs),
        COp::Clear { r } => format!("Clear(r{r})"),
    }
}

fn gen_string(t: &mut Tape, pool: &mut Vec<Vec<u8>>) -> Vec<u8> {
    if t.chance(5) {
        // length boundaries (dictionary tables address entries by byte offset): a first byte,
        // then a repeated two-byte unit
        let n = crate::leaves::BOUNDARY_LENS[t.below(crate::leaves::BOUNDARY_LENS.len())];
        let first = [b'L', 0u8, 200, 7][t.below(4)];
        let mut s = Vec::with_capacity(n);
        s.push(first);
        while s.len() < n {
            s.push(b'a' + (s.len() % 7) as u8);
        }
        pool.push(s.clone());
        return s;
    }
    match t.below(12) {
        0 => Vec::new(),
        1 | 2 | 3 if !pool.is_empty() => {
            let i = t.below(pool.len());
            pool[pool.len() - 1 - i].clone()
        }
        4 if !pool.is_empty() => {
            // extension or prefix of a pool entry
            let i = t.below(pool.len());
            let mut s = pool[i].clone();
            if t.bool() || s.is_empty() {
                s.push(t.u8());
            } else {
                let l = s.len();
                s.truncate(t.below(l));
            }
            s
        }
        5 => vec![t.below(4) as u8], // a single small byte: equals one of the first tags
        6 => {
            // starts with one of the first tags that get assigned
            let mut s = vec![t.below(3) as u8];
            let n = t.below(5);
            s.extend(t.bytes(n));
            s
        }
        7 => {
            let mut s = vec![255u8 - t.below(2) as u8];
            let n = t.below(4);
            s.extend(t.bytes(n));
            s
        }
        _ => {
            let n = 1 + t.len(5, 19);
            let s = t.bytes(n);
            pool.push(s.clone());
            s
        }
    }
}

pub fn decode_case(t: &mut Tape, allow_lossy: bool) -> CodecCase {
    let mut ops = Vec::new();
    let mut pool: Vec<Vec<u8>> = Vec::new();
    let mut big = 0;
    if allow_lossy && t.chance(96) {
        // a dominant string buried in the middle of a long history of distinct strings: it is
        // neither among the first entries of the summary nor after its last compaction
        let r = t.below(NREG) as u8;
        let a = [0u16, 300, 600, 1100][t.below(4)];
        let c = [0u16, 520, 1100, 1500][t.below(4)];
        let hot = gen_string(t, &mut pool);
        let hot = if hot.is_empty() { b"hot-string".to_vec() } else { hot };
        let b = 4 * (a + c) + 50 + t.below(500) as u16;
        ops.push(COp::PushDistinct { r, prefix: vec![b'p', 1], n: a });
        ops.push(COp::PushMany { r, s: hot.clone(), n: b });
        ops.push(COp::PushDistinct { r, prefix: vec![b'q', 2], n: c });
        let dst = t.below(NREG) as u8;
        ops.push(COp::Merge { dst, srcs: vec![r] });
        ops.push(COp::Push { r: dst, s: hot });
    }
    while !t.exhausted() && ops.len() < 60 {
        let r = t.below(NREG) as u8;
        let op = match t.weighted(&[50, 14, 2, 14, 4, 1]) {
            0 => COp::Push { r, s: gen_string(t, &mut pool) },
            1 => COp::PushMany { r, s: gen_string(t, &mut pool), n: 2 + t.below(30) as u16 },
            2 => {
                if allow_lossy && big < 2 {
                    big += 1;
                    // around the summary's capacity (1024 entries) and its half (512 kept)
                    let n = [511u16, 512, 513, 1023, 1024, 1025, 1030, 1200, 1430][t.below(9)];
                    COp::PushDistinct { r, prefix: vec![b'k', t.below(3) as u8], n }
                } else {
                    COp::PushDistinct { r, prefix: vec![b'k'], n: 2 + t.below(20) as u16 }
                }
            }
            3 => {
                let n = t.below(4);
                COp::Merge { dst: r, srcs: (0..n).map(|_| t.below(NREG) as u8).collect() }
            }
            4 => COp::Clear { r },
            _ => COp::PushAllFirstBytes { r, from: [0u8, 1, 2, 128, 250][t.below(5)] },
        };
        ops.push(op);
    }
    CodecCase { ops }
}

fn simplify(op: &COp) -> Vec<COp> {
    let mut out = Vec::new();
    match op {
        COp::Push { r, s } => {
            if *r != 0 {
                out.push(COp::Push { r: 0, s: s.clone() });
            }
            if s.len() > 1 {
                out.push(COp::Push { r: *r, s: s[..1].to_vec() });
                out.push(COp::Push { r: *r, s: s[..s.len() / 2].to_vec() });
            }
            if s.iter().any(|b| *b > 1) {
                out.push(COp::Push { r: *r, s: s.iter().map(|b| if *b > 1 { *b / 2 } else { *b }).collect() });
            }
        }
        COp::PushMany { r, s, n } => {
            out.push(COp::Push { r: *r, s: s.clone() });
            if *n > 2 {
                out.push(COp::PushMany { r: *r, s: s.clone(), n: n / 2 });
            }
            if s.len() > 1 {
                out.push(COp::PushMany { r: *r, s: s[..1].to_vec(), n: *n });
            }
        }
        COp::PushDistinct { r, prefix, n } => {
            if *n > 2 {
                out.push(COp::PushDistinct { r: *r, prefix: prefix.clone(), n: n / 2 });
                out.push(COp::PushDistinct { r: *r, prefix: prefix.clone(), n: n - 1 });
            }
        }
        COp::Merge { dst, srcs } => {
            if !srcs.is_empty() {
                out.push(COp::Merge { dst: *dst, srcs: srcs[..srcs.len() - 1].to_vec() });
                out.push(COp::Merge { dst: *dst, srcs: srcs[1..].to_vec() });
            }
        }
        COp::PushAllFirstBytes { r, from } => {
            if *from < 255 {
                out.push(COp::PushAllFirstBytes { r: *r, from: from + (255 - from) / 2 + 1 });
            }
        }
        COp::Clear { .. } => {}
    }
    out
}

fn case_json(case: &CodecCase) -> Value {
    json!({"engine": "codec", "ops": serde_json::to_value(&case.ops).unwrap()})
}

fn nontrivial(_case: &CodecCase, st: &CStats) -> bool {
    st.hits >= 1 && st.literals >= 1
}

pub fn random_unit(property: &'static str, cases: u32, seed: u64, part: usize, allow_lossy: bool) -> Unit {
    let name = format!("codec#random[{part}{}]", if allow_lossy { ",lossy" } else { "" });
    let uname = name.clone();
    Unit {
        name,
        run: Box::new(move |p: &mut Partial, _deadline: Instant| {
            let seed = derive_seed(seed, &[property, "codec-random", &uname]);
            let mut evals = 0u64;
            let mut failed = false;
            let mut local = Partial::default();
            let mut sample = part == 0;
            let found = drive_tapes(seed, cases, 500, |tape| {
                let case = decode_case(&mut Tape::new(tape), allow_lossy);
                let mut st = CStats::default();
                let r = run_case(&case, &mut st);
                if !failed {
                    evals += 1;
                    if local.fallback_sample.is_none() {
                        local.fallback_sample = Some(case_json(&case));
                    }
                    local.classes.merge(&st.ev);
                    if nontrivial(&case, &st) {
                        let h = fnv1a(serde_json::to_string(&case).unwrap().as_bytes());
                        if local.nontrivial.insert(h) && sample && case.ops.len() <= 8 {
                            sample = false;
                            local.samples.push(case_json(&case));
                        }
                    }
                    failed = r.is_err();
                }
                r
            });
            local.evaluations = evals;
            if let Some((tape, msg)) = found {
                let case = decode_case(&mut Tape::new(&tape), allow_lossy);
                let want = message_class(&msg);
                let ops = shrink_seq(
                    case.ops,
                    simplify,
                    |cand| {
                        let mut st = CStats::default();
                        matches!(run_case(&CodecCase { ops: cand.to_vec() }, &mut st), Err(m) if message_class(&m) == want)
                    },
                    3000,
                );
                let shrunk = CodecCase { ops };
                let mut st = CStats::default();
                let final_msg = run_case(&shrunk, &mut st).err().unwrap_or(msg);
                local.violations.push(Violation {
                    property: property.to_string(),
                    engine: "codec".into(),
                    spec: "Codec<Dictionary>".into(),
                    variant: uname.clone(),
                    signature: signature(property, "codec", &final_msg),
                    message: final_msg,
                    size: shrunk.ops.len(),
                    case: case_json(&shrunk),
                });
            }
            p.merge(local);
        }),
    }
}

pub fn units(property: &'static str, thorough: bool, seed: u64) -> Vec<Unit> {
    let mut u = Vec::new();
    let cases = if thorough { 12000 } else { 2500 };
    for part in 0..14 {
        u.push(random_unit(property, cases, seed, part, false));
    }
    for part in 14..16 {
        u.push(random_unit(property, if thorough { 300 } else { 40 }, seed, part, true));
    }
    u
}

pub fn replay(case: &Value) -> Result<(), String> {
    let ops: Vec<COp> = serde_json::from_value(case["ops"].clone()).map_err(|e| e.to_string())?;
    let mut st = CStats::default();
    run_case(&CodecCase { ops }, &mut st)
}
