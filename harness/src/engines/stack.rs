//! FlatStack histories against a `Vec` of owned values (C03; the FlatStack clauses of C08, C09,
//! C10, C16, C18, C19).

use std::time::Instant;

use flatcontainer::FlatStack;
use serde::de::DeserializeOwned;
use serde::{Deserialize, Serialize};
use serde_json::{json, Value};

use crate::catalogue::{self, StackCaps, StackVisitor};
use crate::runner::*;
use crate::spec::*;
use crate::tape::{fnv1a, Tape};
use crate::util::{guard, Counters};

#[derive(Clone, Debug, PartialEq, Eq, Hash, Serialize, Deserialize)]
#[serde(bound = "V: Serialize + DeserializeOwned")]
pub enum SOp<V> {
    Copy { slot: u8, v: V, form: Vec<u8> },
    Extend { slot: u8, vs: Vec<V>, form: Vec<u8>, hint: u8 },
    FromIter { slot: u8, vs: Vec<V>, form: Vec<u8>, hint: u8 },
    WithCapacity { slot: u8, n: u16 },
    Reserve { slot: u8, n: u16 },
    ReserveItems { slot: u8, vs: Vec<V>, form: Vec<u8> },
    ReserveRegions { slot: u8, src: u8 },
    Clear { slot: u8 },
    Clone { dst: u8, src: u8 },
    CloneFrom { dst: u8, src: u8 },
    Merge { dst: u8, srcs: Vec<u8> },
    Serde { slot: u8 },
}

impl<V> SOp<V> {
    fn kind(&self) -> &'static str {
        match self {
            SOp::Copy { .. } => "copy",
            SOp::Extend { .. } => "extend",
            SOp::FromIter { .. } => "from_iter",
            SOp::WithCapacity { .. } => "with_capacity",
            SOp::Reserve { .. } => "reserve",
            SOp::ReserveItems { .. } => "reserve_items",
            SOp::ReserveRegions { .. } => "reserve_regions",
            SOp::Clear { .. } => "clear",
            SOp::Clone { .. } => "clone",
            SOp::CloneFrom { .. } => "clone_from",
            SOp::Merge { .. } => "merge_capacity",
            SOp::Serde { .. } => "serde",
        }
    }
}

#[derive(Clone, Debug)]
pub struct StackCfg {
    pub max_ops: usize,
    //         copy ext fromiter withcap reserve rsvitems rsvregions clear clone clonefrom merge serde
    pub w: [u32; 12],
    pub gp: Gp,
    pub heap: bool,
    pub cost: bool,
    pub reuse: u16,
}

pub fn stack_cfg(property: &str) -> StackCfg {
    let mut c = StackCfg {
        max_ops: 30,
        w: [50, 10, 5, 2, 4, 3, 2, 6, 4, 4, 4, 3],
        gp: Gp::normal(),
        heap: false,
        cost: false,
        reuse: 64,
    };
    match property {
        "C03" => {}
        "C02" => c.w = [60, 12, 0, 0, 10, 6, 4, 0, 0, 0, 0, 0],
        "C08" => {
            c.w = [55, 8, 2, 1, 2, 1, 1, 16, 2, 2, 3, 1];
            c.cost = true;
            c.reuse = 128;
        }
        "C09" => c.w = [45, 6, 2, 1, 2, 1, 1, 5, 14, 14, 2, 1],
        "C10" => c.w = [45, 6, 3, 8, 10, 8, 6, 3, 2, 2, 10, 1],
        "C16" => {
            c.w = [50, 8, 3, 1, 2, 1, 1, 5, 2, 2, 3, 16];
            c.reuse = 128;
        }
        "C18" => {
            c.w = [55, 10, 3, 2, 4, 3, 2, 10, 2, 2, 3, 1];
            c.heap = true;
        }
        "C19" => {
            c.w = [60, 14, 4, 1, 1, 1, 1, 6, 2, 2, 3, 2];
            c.cost = true;
            c.max_ops = 60;
        }
        _ => {}
    }
    c
}

pub fn decode_stack_ops<S: Spec>(t: &mut Tape, cfg: &StackCfg) -> Vec<SOp<S::V>> {
    let mut ops = Vec::new();
    let mut pool: Vec<S::V> = Vec::new();
    while !t.exhausted() && ops.len() < cfg.max_ops {
        let kind = t.weighted(&cfg.w);
        let slot = t.below(2) as u8;
        let mut gen_v = |t: &mut Tape| -> S::V {
            if !pool.is_empty() && t.chance(cfg.reuse) {
                let i = t.below(pool.len());
                pool[pool.len() - 1 - i].clone()
            } else {
                let v = S::gen(t, &cfg.gp);
                pool.push(v.clone());
                v
            }
        };
        let form = |t: &mut Tape| if t.chance(96) { Vec::new() } else { t.bytes(2) };
        let op = match kind {
            0 => {
                let v = gen_v(t);
                SOp::Copy { slot, v, form: form(t) }
            }
            1 | 2 => {
                let n = t.len(4, 12);
                let vs = (0..n).map(|_| gen_v(t)).collect();
                let hint = [255u8, 0, 128, 255][t.below(4)];
                if kind == 1 {
                    SOp::Extend { slot, vs, form: form(t), hint }
                } else {
                    SOp::FromIter { slot, vs, form: form(t), hint }
                }
            }
            3 => SOp::WithCapacity { slot, n: t.below(100) as u16 },
            4 => SOp::Reserve { slot, n: t.below(100) as u16 },
            5 => {
                let n = t.below(4);
                let vs = (0..n).map(|_| gen_v(t)).collect();
                SOp::ReserveItems { slot, vs, form: t.bytes(1) }
            }
            6 => SOp::ReserveRegions { slot, src: t.below(2) as u8 },
            7 => SOp::Clear { slot },
            8 => SOp::Clone { dst: slot, src: 1 - slot },
            9 => SOp::CloneFrom { dst: slot, src: 1 - slot },
            10 => {
                let n = t.below(3);
                SOp::Merge { dst: slot, srcs: (0..n).map(|_| t.below(2) as u8).collect() }
            }
            _ => SOp::Serde { slot },
        };
        ops.push(op);
    }
    ops
}

struct SSlot<S: Spec, IC> {
    st: FlatStack<S::R, IC>,
    model: Vec<S::V>,
    /// index prediction model of the region (None after a merge of a coded region)
    m: S::M,
    predicted: Vec<Option<Idx<S>>>,
    trained: Option<Vec<S::V>>,
    /// the index container was never reserved / given capacity since creation
    ic_untouched: bool,
    /// region storage is exactly modelled (default + copies only)
    pure: bool,
}

impl<S: Spec, IC: IcKind<Idx<S>> + Default> SSlot<S, IC> {
    fn fresh() -> Self {
        SSlot {
            st: FlatStack::default(),
            model: Vec::new(),
            m: S::M::default(),
            predicted: Vec::new(),
            trained: None,
            ic_untouched: true,
            pure: true,
        }
    }
}

#[derive(Default, Clone, Debug)]
pub struct SStats {
    pub ev: Counters,
    pub copies: usize,
}

fn accepted<S: Spec>(trained: &Option<Vec<S::V>>, v: &S::V) -> bool {
    match trained {
        None => true,
        Some(tr) => {
            let refs: Vec<&S::V> = tr.iter().collect();
            S::accepts(&refs, v)
        }
    }
}

fn check_slot<S: Spec, IC: IcKind<Idx<S>> + Default>(
    sl: &mut SSlot<S, IC>,
    cfg: &StackCfg,
    cx: &mut Cx,
    ev: &mut Counters,
    which: usize,
) -> Result<(), String> {
    let n = sl.model.len();
    let st = &sl.st;
    let l = guard(|| st.len()).map_err(|p| format!("len panicked: {p}"))?;
    if l != n {
        return Err(format!("stack {which}: len() = {l}, {n} values were copied"));
    }
    if st.is_empty() != (n == 0) {
        return Err(format!("stack {which}: is_empty() = {} with {n} values", st.is_empty()));
    }
    for (i, v) in sl.model.iter().enumerate() {
        cx.has_successor = i + 1 < n;
        let r = guard(|| S::check(st.get(i), v, cx));
        match r {
            Ok(Ok(())) => {}
            Ok(Err(e)) => return Err(format!("stack {which}: get({i}) of {n}: {e}")),
            Err(p) => return Err(format!("stack {which}: get({i}) of {n} panicked: {p}")),
        }
    }
    // out-of-bounds get must panic
    for i in [n, n + 1, n + 7, usize::MAX] {
        let r = guard(|| {
            let _ = st.get(i);
        });
        ev.hit("oob-get-probes");
        if r.is_ok() {
            return Err(format!("stack {which}: get({i}) with len {n} returned an element instead of panicking"));
        }
    }
    // iteration: order, size hints, cloned iterator
    let r = guard(|| -> Result<(), String> {
        let mut it = st.iter();
        let mut k = 0usize;
        let mut mid = None;
        loop {
            let (lo, hi) = it.size_hint();
            let rem = n - k.min(n);
            if lo > rem || hi.map(|h| h < rem).unwrap_or(false) {
                return Err(format!("iter().size_hint() = ({lo},{hi:?}) with {rem} items remaining"));
            }
            if <IC as IcKind<Idx<S>>>::PLAIN_VEC && (lo != rem || hi != Some(rem)) {
                return Err(format!("exact-size iterator reports ({lo},{hi:?}) with {rem} items remaining"));
            }
            if k == n / 2 {
                mid = Some(it.clone());
            }
            match it.next() {
                Some(item) => {
                    if k >= n {
                        return Err(format!("iteration yields more than len = {n} items"));
                    }
                    cx.has_successor = false;
                    S::check(item, &sl.model[k], cx).map_err(|e| format!("iter()[{k}]: {e}"))?;
                    k += 1;
                }
                None => break,
            }
        }
        if k != n {
            return Err(format!("iteration yields {k} items, len = {n}"));
        }
        if let Some(it2) = mid {
            let mut c = n / 2;
            for item in it2.take(n + 1) {
                if c >= n {
                    return Err("cloned iterator yields too many items".into());
                }
                S::check(item, &sl.model[c], cx).map_err(|e| format!("cloned iter [{c}]: {e}"))?;
                c += 1;
            }
            if c != n {
                return Err(format!("cloned iterator yields {} items, expected {}", c - n / 2, n - n / 2));
            }
        }
        let c3 = (&*st).into_iter().take(n + 1).count();
        if c3 != n {
            return Err(format!("(&stack).into_iter() yields {c3} items, len = {n}"));
        }
        Ok(())
    });
    match r {
        Ok(Ok(())) => {}
        Ok(Err(e)) => return Err(format!("stack {which}: {e}")),
        Err(p) => return Err(format!("stack {which}: iteration panicked: {p}")),
    }
    if S::HEAP && (cfg.heap || cfg.cost) {
        let mut pairs = Vec::new();
        st.heap_size(|u, c| pairs.push((u, c)));
        for (j, (u, c)) in pairs.iter().enumerate() {
            if u > c {
                return Err(format!("stack {which}: heap_size pair #{j} reports used {u} > capacity {c}"));
            }
        }
        let k = <IC as IcKind<Idx<S>>>::PAIRS;
        if pairs.len() < k {
            return Err(format!("stack {which}: heap_size reports {} pairs, the index container alone has {k}", pairs.len()));
        }
        let ic_used: usize = pairs[pairs.len() - k..].iter().map(|p| p.0).sum();
        let ic_cap: usize = pairs[pairs.len() - k..].iter().map(|p| p.1).sum();
        let region_used: usize = pairs[..pairs.len() - k].iter().map(|p| p.0).sum();
        if sl.predicted.iter().all(|p| p.is_some()) {
            let idxs: Vec<Idx<S>> = sl.predicted.iter().map(|p| p.unwrap()).collect();
            let (lo, hi) = <IC as IcKind<Idx<S>>>::used_bounds(&idxs);
            if cfg.heap && ic_used < lo {
                return Err(format!("stack {which}: the index container accounts {ic_used} used bytes for {n} indices, at least {lo} are stored (FlatStack::heap_size must include its index container)"));
            }
            if cfg.cost && ic_used > hi {
                return Err(format!("stack {which}: the index container uses {ic_used} bytes for {n} indices, the documented rule allows {hi}"));
            }
            if cfg.cost && hi == 0 && sl.ic_untouched && <IC as IcKind<Idx<S>>>::NAME == "IndexOptimized" {
                ev.hit("dense-stack-zero-heap-checked");
                if n >= 100 {
                    ev.hit("dense-stack>=100-zero-heap-checked");
                }
                if ic_cap != 0 {
                    return Err(format!("stack {which}: {n} dense indices in an IndexOptimized container must cost no heap, capacity {ic_cap} reported"));
                }
            }
            if hi > 0 {
                // a spill may legitimately leave capacity behind, also after a later clear
                sl.ic_untouched = false;
                if <IC as IcKind<Idx<S>>>::NAME == "IndexOptimized" {
                    ev.hit("optimized-stack-spilled");
                }
            }
        }
        if cfg.heap {
            let vals: Vec<&S::V> = sl.model.iter().collect();
            // (a lower bound only: C18 does not restrict what else a region may account)
            let (lo, _) = S::used_bounds(&vals);
            if region_used < lo {
                return Err(format!("stack {which}: the region accounts {region_used} used bytes, at least {lo} are stored"));
            }
        }
    }
    Ok(())
}

pub fn run_stack<S: Spec, IC: IcKind<Idx<S>> + Default>(
    ops: &[SOp<S::V>],
    caps: StackCaps<S::R, IC>,
    cfg: &StackCfg,
    stats: &mut SStats,
) -> Result<(), String> {
    let mut slots: Vec<SSlot<S, IC>> = vec![SSlot::fresh(), SSlot::fresh()];
    let mut cx = Cx::default();
    let mut ev = Counters::default();
    let res = (|| -> Result<(), String> {
        for (k, op) in ops.iter().enumerate() {
            let e = |m: String| format!("op #{k} ({}): {m}", op.kind());
            match op {
                SOp::Copy { slot, v, form } => {
                    let si = *slot as usize % 2;
                    if !accepted::<S>(&slots[si].trained, v) || !S::admissible(&slots[si].m, v) {
                        ev.hit("copy-skipped-outside-acceptance");
                        continue;
                    }
                    let p = S::model_push(&mut slots[si].m, v);
                    let mut f = Forms::new(form);
                    let st = &mut slots[si].st;
                    guard(|| S::push_via(&mut StackSink(st), v, &mut f)).map_err(|p| e(format!("copy panicked for {:?}: {p}", v)))?;
                    slots[si].model.push(v.clone());
                    slots[si].predicted.push(p);
                    stats.copies += 1;
                    ev.hit("op:copy");
                }
                SOp::Extend { slot, vs, form, hint } => {
                    let si = *slot as usize % 2;
                    if !vs.iter().all(|v| accepted::<S>(&slots[si].trained, v)) {
                        continue;
                    }
                    let had = slots[si].model.len();
                    let mut f = Forms::new(form);
                    let st = &mut slots[si].st;
                    let mut sink = ExtendSink { stack: st, hint: *hint, n: vs.len() };
                    guard(|| S::push_all_via(&mut sink, vs, &mut f)).map_err(|p| e(format!("extend panicked: {p}")))?;
                    for v in vs {
                        let p = S::model_push(&mut slots[si].m, v);
                        slots[si].model.push(v.clone());
                        slots[si].predicted.push(p);
                    }
                    stats.copies += vs.len();
                    ev.hit("op:extend");
                    if had == 0 && !vs.is_empty() {
                        ev.hit("extend-into-empty");
                    }
                }
                SOp::FromIter { slot, vs, form, hint } => {
                    let si = *slot as usize % 2;
                    let mut f = Forms::new(form);
                    let mut sink = FromIterSink::<S::R, IC> { out: None, hint: *hint, n: vs.len() };
                    guard(|| S::push_all_via(&mut sink, vs, &mut f)).map_err(|p| e(format!("from_iter panicked: {p}")))?;
                    let Some(st) = sink.out else { return Err(e("from_iter produced nothing".into())) };
                    let mut sl = SSlot::<S, IC>::fresh();
                    sl.st = st;
                    for v in vs {
                        let p = S::model_push(&mut sl.m, v);
                        sl.model.push(v.clone());
                        sl.predicted.push(p);
                    }
                    sl.ic_untouched = true;
                    slots[si] = sl;
                    stats.copies += vs.len();
                    ev.hit("op:from_iter");
                }
                SOp::WithCapacity { slot, n } => {
                    let si = *slot as usize % 2;
                    let st = guard(|| FlatStack::<S::R, IC>::with_capacity(*n as usize)).map_err(|p| e(format!("with_capacity panicked: {p}")))?;
                    let mut sl = SSlot::<S, IC>::fresh();
                    sl.st = st;
                    sl.ic_untouched = true;
                    slots[si] = sl;
                    ev.hit("op:with_capacity");
                }
                SOp::Reserve { slot, n } => {
                    let si = *slot as usize % 2;
                    let st = &mut slots[si].st;
                    guard(|| st.reserve(*n as usize)).map_err(|p| e(format!("reserve panicked: {p}")))?;
                    ev.hit("op:reserve");
                }
                SOp::ReserveItems { slot, vs, form } => {
                    let si = *slot as usize % 2;
                    let mut f = Forms::new(form);
                    let st = &mut slots[si].st;
                    guard(|| S::reserve_items(&mut StackRSink(st), vs, &mut f)).map_err(|p| e(format!("reserve_items panicked: {p}")))?;
                    ev.hit("op:reserve_items");
                }
                SOp::ReserveRegions { slot, src } => {
                    let (si, sj) = (*slot as usize % 2, *src as usize % 2);
                    if !S::RESERVE_REGIONS || si == sj {
                        continue;
                    }
                    // FlatStack::reserve_regions takes regions; build one holding the source's values
                    let mut tmp = S::R::default();
                    for v in &slots[sj].model {
                        let _ = S::push_via(&mut RegionSink(&mut tmp), v, &mut Forms::canonical());
                    }
                    let st = &mut slots[si].st;
                    guard(|| st.reserve_regions(std::iter::once(&tmp))).map_err(|p| e(format!("reserve_regions panicked: {p}")))?;
                    slots[si].pure = false;
                    ev.hit("op:reserve_regions");
                }
                SOp::Clear { slot } => {
                    let si = *slot as usize % 2;
                    let had = slots[si].model.len();
                    let st = &mut slots[si].st;
                    guard(|| st.clear()).map_err(|p| e(format!("clear panicked: {p}")))?;
                    slots[si].model.clear();
                    slots[si].predicted.clear();
                    slots[si].m = S::M::default();
                    slots[si].trained = None;
                    slots[si].pure = false;
                    ev.hit("op:clear");
                    if had > 0 {
                        ev.hit("clear-of-populated");
                    }
                }
                SOp::Clone { dst, src } => {
                    let (di, sj) = (*dst as usize % 2, *src as usize % 2);
                    let Some(cl) = caps.clone else { continue };
                    if di == sj {
                        continue;
                    }
                    let s = &slots[sj];
                    let c = guard(|| cl(&s.st)).map_err(|p| e(format!("clone panicked: {p}")))?;
                    let new = SSlot {
                        st: c,
                        model: s.model.clone(),
                        m: s.m.clone(),
                        predicted: s.predicted.clone(),
                        trained: s.trained.clone(),
                        ic_untouched: s.ic_untouched,
                        pure: s.pure,
                    };
                    if !new.model.is_empty() {
                        ev.hit("clone-of-populated");
                    }
                    slots[di] = new;
                    ev.hit("op:clone");
                }
                SOp::CloneFrom { dst, src } => {
                    let (di, sj) = (*dst as usize % 2, *src as usize % 2);
                    let Some(cf) = caps.clone_from else { continue };
                    if di == sj {
                        continue;
                    }
                    let mut d = std::mem::take(&mut slots[di].st);
                    let dst_had = slots[di].model.len();
                    let dst_untouched = slots[di].ic_untouched && dst_had == 0;
                    let dst_pure = slots[di].pure && dst_had == 0;
                    let s = &slots[sj];
                    guard(|| cf(&mut d, &s.st)).map_err(|p| e(format!("clone_from panicked: {p}")))?;
                    let new = SSlot {
                        st: d,
                        model: s.model.clone(),
                        m: s.m.clone(),
                        predicted: s.predicted.clone(),
                        trained: s.trained.clone(),
                        ic_untouched: s.ic_untouched && dst_untouched,
                        pure: s.pure && dst_pure,
                    };
                    if dst_had > new.model.len() {
                        ev.hit("clone_from-into-longer-destination");
                    }
                    slots[di] = new;
                    ev.hit("op:clone_from");
                }
                SOp::Merge { dst, srcs } => {
                    let di = *dst as usize % 2;
                    let refs: Vec<&FlatStack<S::R, IC>> = srcs.iter().map(|s| &slots[*s as usize % 2].st).collect();
                    let merged = guard(|| FlatStack::<S::R, IC>::merge_capacity(refs.iter().copied()))
                        .map_err(|p| e(format!("merge_capacity panicked: {p}")))?;
                    drop(refs);
                    let mut trained = Vec::new();
                    let mut total = 0usize;
                    for s in srcs {
                        trained.extend(slots[*s as usize % 2].model.iter().cloned());
                        total += slots[*s as usize % 2].model.len();
                    }
                    let mut sl = SSlot::<S, IC>::fresh();
                    sl.st = merged;
                    sl.m = S::model_merged();
                    sl.trained = if S::CODED { Some(trained) } else { None };
                    sl.ic_untouched = true;
                    sl.pure = false;
                    slots[di] = sl;
                    ev.hit("op:merge_capacity");
                    if total > 0 {
                        ev.hit("merge_capacity-from-populated");
                    }
                }
                SOp::Serde { slot } => {
                    let si = *slot as usize % 2;
                    let (Some(tj), Some(fj)) = (caps.to_json, caps.from_json) else { continue };
                    if !S::JSON_SAFE {
                        continue;
                    }
                    let st = &slots[si].st;
                    let json = guard(|| tj(st)).map_err(|p| e(format!("serialisation panicked: {p}")))?.map_err(|x| e(format!("serialisation failed: {x}")))?;
                    let back = guard(|| fj(&json)).map_err(|p| e(format!("deserialisation panicked: {p}")))?.map_err(|x| e(format!("deserialisation of own output failed: {x}")))?;
                    slots[si].st = back;
                    ev.hit("op:serde");
                    if !slots[si].model.is_empty() {
                        ev.hit("serde-of-populated");
                    }
                }
            }
            for (w, sl) in slots.iter_mut().enumerate() {
                check_slot::<S, IC>(sl, cfg, &mut cx, &mut ev, w).map_err(e)?;
            }
        }
        Ok(())
    })();
    stats.ev.merge(&ev);
    res
}

fn simplify<S: Spec>(op: &SOp<S::V>) -> Vec<SOp<S::V>> {
    let mut out = Vec::new();
    match op {
        SOp::Copy { slot, v, form } => {
            if !form.is_empty() {
                out.push(SOp::Copy { slot: *slot, v: v.clone(), form: Vec::new() });
            }
            if *slot != 0 {
                out.push(SOp::Copy { slot: 0, v: v.clone(), form: form.clone() });
            }
            for w in S::shrink(v).into_iter().take(6) {
                out.push(SOp::Copy { slot: *slot, v: w, form: form.clone() });
            }
        }
        SOp::Extend { slot, vs, form, hint } => {
            if !vs.is_empty() {
                out.push(SOp::Extend { slot: *slot, vs: vs[..vs.len() - 1].to_vec(), form: form.clone(), hint: *hint });
                out.push(SOp::Extend { slot: *slot, vs: vs[1..].to_vec(), form: form.clone(), hint: *hint });
            }
            if *hint != 255 {
                out.push(SOp::Extend { slot: *slot, vs: vs.clone(), form: form.clone(), hint: 255 });
            }
            if vs.len() == 1 {
                out.push(SOp::Copy { slot: *slot, v: vs[0].clone(), form: Vec::new() });
            }
        }
        SOp::FromIter { slot, vs, form, hint } => {
            if !vs.is_empty() {
                out.push(SOp::FromIter { slot: *slot, vs: vs[..vs.len() - 1].to_vec(), form: form.clone(), hint: *hint });
                out.push(SOp::FromIter { slot: *slot, vs: vs[1..].to_vec(), form: form.clone(), hint: *hint });
            }
        }
        SOp::Merge { dst, srcs } if !srcs.is_empty() => {
            out.push(SOp::Merge { dst: *dst, srcs: srcs[..srcs.len() - 1].to_vec() });
        }
        _ => {}
    }
    out
}

fn nontrivial<V: PartialEq>(property: &str, ops: &[SOp<V>], st: &SStats) -> bool {
    match property {
        "C08" => st.ev.get("clear-of-populated") > 0 && st.copies >= 2,
        "C09" => st.ev.get("clone-of-populated") + st.ev.get("op:clone_from") > 0 && st.copies >= 2,
        "C10" => {
            st.copies >= 1
                && (st.ev.get("op:reserve") + st.ev.get("op:reserve_items") + st.ev.get("op:reserve_regions")
                    + st.ev.get("op:with_capacity") + st.ev.get("merge_capacity-from-populated")
                    > 0)
        }
        "C16" => st.ev.get("serde-of-populated") > 0,
        _ => {
            // >= 3 elements, >= 2 distinct
            let mut vals: Vec<&V> = Vec::new();
            for o in ops {
                match o {
                    SOp::Copy { v, .. } => vals.push(v),
                    SOp::Extend { vs, .. } | SOp::FromIter { vs, .. } => vals.extend(vs.iter()),
                    _ => {}
                }
            }
            st.copies >= 3 && vals.iter().any(|v| *v != vals[0])
        }
    }
}

struct Collector {
    property: &'static str,
    cases: u32,
    seed: u64,
    units: Vec<Unit>,
    only_optimized_dense: bool,
}
impl StackVisitor for Collector {
    fn visit<S: Spec, IC: IcKind<Idx<S>> + Default>(&mut self, caps: StackCaps<S::R, IC>) {
        if self.only_optimized_dense && <IC as IcKind<Idx<S>>>::NAME != "IndexOptimized" {
            return;
        }
        match self.property {
            "C09" if caps.clone.is_none() => return,
            "C16" if caps.to_json.is_none() || !S::JSON_SAFE => return,
            "C18" | "C19" if !S::HEAP => return,
            _ => {}
        }
        self.units.push(stack_unit_erased::<S, IC>(self.property, caps, self.cases, self.seed));
    }
}

// FlatStack<R, IC> must cross threads inside the unit closure only as a type, never as a value;
// the closure captures fn pointers and plain data, so no `Send` bound on the region is needed.
fn stack_unit_erased<S: Spec, IC: IcKind<Idx<S>> + Default>(
    property: &'static str,
    caps: StackCaps<S::R, IC>,
    cases: u32,
    seed: u64,
) -> Unit {
    let name = format!("FlatStack<{},{}>", S::name(), <IC as IcKind<Idx<S>>>::NAME);
    let uname = name.clone();
    let cfg = stack_cfg(property);
    Unit {
        name,
        run: Box::new(move |p: &mut Partial, _deadline: Instant| {
            let seed = derive_seed(seed, &[property, "stack", &uname]);
            let mut evals = 0u64;
            let mut failed = false;
            let mut local = Partial::default();
            let mut sample = true;
            let found = drive_tapes(seed, cases, 512, |tape| {
                let ops = decode_stack_ops::<S>(&mut Tape::new(tape), &cfg);
                let mut st = SStats::default();
                let r = run_stack::<S, IC>(&ops, caps, &cfg, &mut st);
                if !failed {
                    evals += 1;
                    local.classes.merge(&st.ev);
                    if nontrivial(property, &ops, &st) {
                        let h = fnv1a(serde_json::to_string(&ops).unwrap_or_default().as_bytes()) ^ fnv1a(uname.as_bytes());
                        if local.nontrivial.insert(h) && sample && ops.len() <= 8 {
                            sample = false;
                            local.samples.push(json!({"engine": "stack", "stack": uname, "ops": serde_json::to_value(&ops).unwrap_or(Value::Null)}));
                        }
                    }
                    failed = r.is_err();
                }
                r
            });
            local.evaluations = evals;
            if let Some((tape, msg)) = found {
                let ops = decode_stack_ops::<S>(&mut Tape::new(&tape), &cfg);
                let want = message_class(&msg);
                let shrunk = shrink_seq(
                    ops,
                    simplify::<S>,
                    |cand| {
                        let mut st = SStats::default();
                        matches!(run_stack::<S, IC>(cand, caps, &cfg, &mut st), Err(m) if message_class(&m) == want)
                    },
                    3000,
                );
                let mut st = SStats::default();
                let final_msg = run_stack::<S, IC>(&shrunk, caps, &cfg, &mut st).err().unwrap_or(msg);
                local.violations.push(Violation {
                    property: property.to_string(),
                    engine: "stack".into(),
                    spec: uname.clone(),
                    variant: "stack".into(),
                    signature: signature(property, "stack", &final_msg),
                    message: final_msg,
                    size: shrunk.len(),
                    case: json!({"engine": "stack", "stack": uname, "ops": serde_json::to_value(&shrunk).unwrap_or(Value::Null)}),
                });
            }
            p.merge(local);
        }),
    }
}

pub fn units(property: &'static str, cases: u32, seed: u64) -> Vec<Unit> {
    let mut c = Collector { property, cases, seed, units: Vec::new(), only_optimized_dense: property == "C19" };
    catalogue::stacks(&mut c);
    c.units
}

struct Replayer<'a> {
    property: &'a str,
    name: &'a str,
    ops: &'a Value,
    result: Option<Result<(), String>>,
}
impl<'a> StackVisitor for Replayer<'a> {
    fn visit<S: Spec, IC: IcKind<Idx<S>> + Default>(&mut self, caps: StackCaps<S::R, IC>) {
        let name = format!("FlatStack<{},{}>", S::name(), <IC as IcKind<Idx<S>>>::NAME);
        if self.result.is_some() || name != self.name {
            return;
        }
        let ops: Vec<SOp<S::V>> = match serde_json::from_value(self.ops.clone()) {
            Ok(o) => o,
            Err(e) => {
                self.result = Some(Err(format!("cannot decode ops: {e}")));
                return;
            }
        };
        let cfg = stack_cfg(self.property);
        let mut st = SStats::default();
        self.result = Some(run_stack::<S, IC>(&ops, caps, &cfg, &mut st));
    }
}

pub fn replay(property: &str, case: &Value) -> Result<(), String> {
    let mut r = Replayer { property, name: case["stack"].as_str().unwrap_or(""), ops: &case["ops"], result: None };
    catalogue::stacks(&mut r);
    r.result.unwrap_or_else(|| Err(format!("stack {:?} is not in the catalogue", case["stack"])))
}

