//! Equality and ordering of read items (C15): slice items (region-backed / owned-borrowed, in
//! different regions) and Huffman items (raw / encoded with different tables / borrowed) against
//! equality and lexicographic ordering of the owned values; total-order laws on triples.

use std::cmp::Ordering;
use std::time::Instant;

use flatcontainer::impls::huffman_container::HuffmanContainer;
use flatcontainer::{IntoOwned, Push, Region, SliceRegion};
use serde_json::{json, Value};

use crate::catalogue::{IL, IO, VU};
use crate::combos::{Cip, Slice};
use crate::history::small_values;
use crate::leaves::{Mirror, Owned, Str};
use crate::runner::*;
use crate::spec::*;
use crate::tape::{fnv1a, Tape};
use crate::util::{guard, Counters};

/// One triple: three values, each with a representation (0 region A, 1 region B, 2 borrowed).
#[derive(Clone, Debug, PartialEq, Eq, Hash, serde::Serialize, serde::Deserialize)]
pub struct Triple<V> {
    pub vals: [Vec<V>; 3],
    pub reps: [u8; 3],
}

fn laws(
    what: &str,
    eq: &dyn Fn(usize, usize) -> bool,
    cmp: Option<&dyn Fn(usize, usize) -> Ordering>,
    pcmp: &dyn Fn(usize, usize) -> Option<Ordering>,
    want_eq: &dyn Fn(usize, usize) -> bool,
    want_cmp: &dyn Fn(usize, usize) -> Option<Ordering>,
    describe: &dyn Fn(usize) -> String,
) -> Result<(), String> {
    for i in 0..3 {
        for j in 0..3 {
            let e = eq(i, j);
            if e != want_eq(i, j) {
                return Err(format!("{what}: {} == {} is {e}, the owned values compare {}", describe(i), describe(j), want_eq(i, j)));
            }
            let pc = pcmp(i, j);
            if pc != want_cmp(i, j) {
                return Err(format!("{what}: partial_cmp({}, {}) = {:?}, lexicographic order of the owned values gives {:?}", describe(i), describe(j), pc, want_cmp(i, j)));
            }
            if let Some(cmp) = cmp {
                let c = cmp(i, j);
                if Some(c) != want_cmp(i, j) {
                    return Err(format!("{what}: cmp({}, {}) = {:?}, lexicographic order of the owned values gives {:?}", describe(i), describe(j), c, want_cmp(i, j)));
                }
                if pc != Some(c) {
                    return Err(format!("{what}: partial_cmp {:?} disagrees with cmp {:?} for {} and {}", pc, c, describe(i), describe(j)));
                }
                if (c == Ordering::Equal) != e {
                    return Err(format!("{what}: eq = {e} but cmp = {:?} for {} and {}", c, describe(i), describe(j)));
                }
                if cmp(j, i) != c.reverse() {
                    return Err(format!("{what}: cmp is not antisymmetric for {} and {}", describe(i), describe(j)));
                }
            }
        }
        if !eq(i, i) && want_eq(i, i) {
            return Err(format!("{what}: {} is not equal to itself", describe(i)));
        }
    }
    if let Some(cmp) = cmp {
        for (a, b, c) in [(0, 1, 2), (0, 2, 1), (1, 0, 2), (1, 2, 0), (2, 0, 1), (2, 1, 0)] {
            if cmp(a, b) != Ordering::Greater && cmp(b, c) != Ordering::Greater && cmp(a, c) == Ordering::Greater {
                return Err(format!("{what}: order is not transitive: {} <= {} <= {} but the first is greater than the last", describe(a), describe(b), describe(c)));
            }
        }
    }
    Ok(())
}

/// Slice regions over an inner spec whose read item is `Ord`.
pub fn run_slice_ord<S, O>(t: &Triple<S::V>, ev: &mut Counters) -> Result<(), String>
where
    S: Spec,
    S::V: Ord,
    O: IcKind<Idx<S>>,
    S::R: for<'a> Push<&'a Own<S>> + for<'a> Push<<S::R as Region>::ReadItem<'a>>,
    for<'a> <S::R as Region>::ReadItem<'a>: Ord,
{
    let owned: Vec<Vec<Own<S>>> = t.vals.iter().map(|v| v.iter().map(S::owned).collect()).collect();
    // two regions with different prior contents, so equal content sits at different offsets
    let mut ra = SliceRegion::<S::R, O>::default();
    let mut rb = SliceRegion::<S::R, O>::default();
    if let Some(first) = owned.iter().find(|o| !o.is_empty()) {
        let _ = rb.push(first.as_slice());
        let _ = rb.push(first.as_slice());
    }
    // region B holds its values as *copies of read items* of a scratch region (not of owned
    // slices), taken from a non-zero offset
    let mut scratch = SliceRegion::<S::R, O>::default();
    let mut idx: Vec<Option<(usize, usize)>> = Vec::new();
    for k in 0..3 {
        idx.push(match t.reps[k] % 3 {
            0 => Some(ra.push(owned[k].as_slice())),
            1 => {
                let _pad = scratch.push(owned[k].as_slice());
                let si = scratch.push(owned[k].as_slice());
                Some(rb.push(scratch.index(si)))
            }
            _ => None,
        });
    }
    let r = guard(|| -> Result<(), String> {
        let items: Vec<<SliceRegion<S::R, O> as Region>::ReadItem<'_>> = (0..3)
            .map(|k| match (t.reps[k] % 3, idx[k]) {
                (0, Some(i)) => ra.index(i),
                (1, Some(i)) => rb.index(i),
                _ => IntoOwned::borrow_as(&owned[k]),
            })
            .collect();
        let describe = |i: usize| format!("{}{:?}", ["regionA", "regionB(copied read item)", "borrowed"][(t.reps[i] % 3) as usize], t.vals[i]);
        let eq = |i: usize, j: usize| items[i] == items[j];
        let pcmp = |i: usize, j: usize| items[i].partial_cmp(&items[j]);
        let cmp = |i: usize, j: usize| Ord::cmp(&items[i], &items[j]);
        let want_eq = |i: usize, j: usize| t.vals[i] == t.vals[j];
        let want_cmp = |i: usize, j: usize| Some(t.vals[i].cmp(&t.vals[j]));
        laws("slice items", &eq, Some(&cmp), &pcmp, &want_eq, &want_cmp, &describe)?;
        // sorting by Ord must give the owned order
        let mut order: Vec<usize> = vec![0, 1, 2];
        order.sort_by(|a, b| Ord::cmp(&items[*a], &items[*b]));
        let sorted: Vec<&Vec<S::V>> = order.iter().map(|i| &t.vals[*i]).collect();
        if !(sorted[0] <= sorted[1] && sorted[1] <= sorted[2]) {
            return Err(format!("sorting read items by Ord gives {:?}, which is not sorted by the owned values", sorted));
        }
        Ok(())
    });
    ev.hit("slice-triple");
    for i in 0..3 {
        for j in 0..3 {
            if i != j && t.vals[i] == t.vals[j] && t.reps[i] % 3 != t.reps[j] % 3 {
                ev.hit("equal-across-representations");
            }
            if t.vals[i].len() < t.vals[j].len() && t.vals[j][..t.vals[i].len()] == t.vals[i][..] {
                ev.hit("strict-prefix-pair");
            }
        }
    }
    match r {
        Ok(x) => x,
        Err(p) => Err(format!("comparison panicked: {p}")),
    }
}

/// Huffman items: raw container, two encoded containers with different tables, borrowed.
pub fn run_huffman(t: &Triple<u8>, ev: &mut Counters) -> Result<(), String> {
    let train = |counts: &[(u8, usize)]| -> HuffmanContainer<u8> {
        let mut raw = HuffmanContainer::<u8>::default();
        for (s, c) in counts {
            let _ = raw.push(vec![*s; *c]);
        }
        HuffmanContainer::merge_regions(std::iter::once(&raw))
    };
    let r = guard(|| -> Result<(), String> {
        let mut raw = HuffmanContainer::<u8>::default();
        let _ = raw.push([9u8, 9, 9]);
        // table A: skewed towards 0; table B: skewed towards 2 (different code lengths per symbol)
        let mut ea = train(&[(0, 20), (1, 5), (2, 2), (3, 1)]);
        let mut eb = train(&[(0, 1), (1, 2), (2, 9), (3, 30)]);
        let _ = eb.push([3u8, 2]);
        let mut idx: Vec<Option<(usize, usize)>> = Vec::new();
        for k in 0..3 {
            idx.push(match t.reps[k] % 4 {
                0 => Some(raw.push(t.vals[k].as_slice())),
                1 => Some(ea.push(t.vals[k].as_slice())),
                2 => Some(eb.push(t.vals[k].as_slice())),
                _ => None,
            });
        }
        let items: Vec<<HuffmanContainer<u8> as Region>::ReadItem<'_>> = (0..3)
            .map(|k| match (t.reps[k] % 4, idx[k]) {
                (0, Some(i)) => raw.index(i),
                (1, Some(i)) => ea.index(i),
                (2, Some(i)) => eb.index(i),
                _ => IntoOwned::borrow_as(&t.vals[k]),
            })
            .collect();
        let describe = |i: usize| format!("{}{:?}", ["raw", "encodedA", "encodedB", "borrowed"][(t.reps[i] % 4) as usize], t.vals[i]);
        let eq = |i: usize, j: usize| items[i] == items[j];
        let pcmp = |i: usize, j: usize| items[i].partial_cmp(&items[j]);
        let cmp = |i: usize, j: usize| Ord::cmp(&items[i], &items[j]);
        let want_eq = |i: usize, j: usize| t.vals[i] == t.vals[j];
        let want_cmp = |i: usize, j: usize| Some(t.vals[i].cmp(&t.vals[j]));
        laws("huffman items", &eq, Some(&cmp), &pcmp, &want_eq, &want_cmp, &describe)
    });
    ev.hit("huffman-triple");
    for i in 0..3 {
        for j in 0..3 {
            if i != j && t.vals[i] == t.vals[j] && t.reps[i] % 4 != t.reps[j] % 4 {
                ev.hit("equal-across-representations");
                if (t.reps[i] % 4 == 1 && t.reps[j] % 4 == 2) || (t.reps[i] % 4 == 2 && t.reps[j] % 4 == 1) {
                    ev.hit("equal-across-two-encoded-tables");
                }
            }
            if t.vals[i].len() < t.vals[j].len() && t.vals[j][..t.vals[i].len()] == t.vals[i][..] {
                ev.hit("strict-prefix-pair");
            }
        }
    }
    match r {
        Ok(x) => x,
        Err(p) => Err(format!("comparison panicked: {p}")),
    }
}

fn all_vectors<V: Clone>(alphabet: &[V], max_len: usize) -> Vec<Vec<V>> {
    let mut out: Vec<Vec<V>> = vec![Vec::new()];
    let mut frontier: Vec<Vec<V>> = vec![Vec::new()];
    for _ in 0..max_len {
        let mut next = Vec::new();
        for f in &frontier {
            for a in alphabet {
                let mut g = f.clone();
                g.push(a.clone());
                next.push(g);
            }
        }
        out.extend(next.iter().cloned());
        frontier = next;
    }
    out
}

type Runner<V> = fn(&Triple<V>, &mut Counters) -> Result<(), String>;

fn nontrivial<V: PartialEq>(t: &Triple<V>, nreps: u8) -> bool {
    for i in 0..3 {
        for j in 0..3 {
            if i == j {
                continue;
            }
            let (a, b) = (&t.vals[i], &t.vals[j]);
            if a.len() < b.len() && b[..a.len()] == a[..] {
                return true;
            }
            if a == b && t.reps[i] % nreps != t.reps[j] % nreps {
                return true;
            }
        }
    }
    false
}

fn exhaustive_unit<V>(property: &'static str, label: String, alphabet: Vec<V>, max_len: usize, nreps: u8, run: Runner<V>) -> Unit
where
    V: Clone + PartialEq + Send + Sync + std::fmt::Debug + serde::Serialize + 'static,
{
    let name = format!("order:{label}#exh(len<={max_len},alphabet={})", alphabet.len());
    let uname = name.clone();
    Unit {
        name,
        run: Box::new(move |p: &mut Partial, deadline: Instant| {
            let vecs = all_vectors(&alphabet, max_len);
            let n = vecs.len();
            let mut count = 0u64;
            let mut nt = 0u64;
            let mut seen: std::collections::HashSet<String> = Default::default();
            let mut complete = true;
            let nr = nreps as usize;
            'outer: for a in 0..n {
                for b in 0..n {
                    for c in 0..n {
                        for reps in 0..(nr * nr * nr) {
                            let t = Triple { vals: [vecs[a].clone(), vecs[b].clone(), vecs[c].clone()], reps: [(reps % nr) as u8, ((reps / nr) % nr) as u8, (reps / nr / nr) as u8] };
                            let mut ev = Counters::default();
                            let r = run(&t, &mut ev);
                            count += 1;
                            if nontrivial(&t, nreps) {
                                nt += 1;
                            }
                            if count % 4096 == 0 {
                                p.classes.merge(&ev);
                                if Instant::now() >= deadline {
                                    complete = false;
                                    break 'outer;
                                }
                            }
                            if let Err(msg) = r {
                                if seen.insert(message_class(&msg)) {
                                    p.violations.push(Violation {
                                        property: property.to_string(),
                                        engine: "order".into(),
                                        spec: label.clone(),
                                        variant: "exh".into(),
                                        signature: signature(property, "order", &msg),
                                        message: msg,
                                        size: t.vals.iter().map(|v| v.len()).sum(),
                                        case: json!({"engine": "order", "subject": label, "triple": serde_json::to_value(&t).unwrap_or(Value::Null)}),
                                    });
                                }
                            }
                        }
                    }
                }
            }
            p.evaluations += count;
            p.nontrivial_enumerated += nt;
            p.exhaustive.push(json!({"space": uname, "vectors": n, "representations": nreps, "cases": count, "complete": complete}));
            if !complete {
                p.incomplete.push(format!("{uname}: enumeration stopped at the deadline"));
            }
        }),
    }
}

fn random_unit<V>(
    property: &'static str,
    label: String,
    cases: u32,
    seed: u64,
    nreps: u8,
    gen: fn(&mut Tape) -> V,
    run: Runner<V>,
) -> Unit
where
    V: Clone + PartialEq + Send + Sync + std::fmt::Debug + serde::Serialize + 'static,
{
    let name = format!("order:{label}#random");
    let uname = name.clone();
    Unit {
        name,
        run: Box::new(move |p: &mut Partial, _deadline: Instant| {
            let seed = derive_seed(seed, &[property, "order", &uname]);
            let mut evals = 0u64;
            let mut failed = false;
            let mut local = Partial::default();
            let mut sample = true;
            let decode = |t: &mut Tape| -> Triple<V> {
                let mut vals: Vec<Vec<V>> = Vec::new();
                for k in 0..3 {
                    if k > 0 && t.chance(80) {
                        // prefix / extension / copy of an earlier value
                        let base = vals[t.below(k)].clone();
                        let v = match t.below(3) {
                            0 => base,
                            1 => {
                                let l = base.len();
                                base[..t.below(l + 1)].to_vec()
                            }
                            _ => {
                                let mut b = base;
                                b.push(gen(t));
                                b
                            }
                        };
                        vals.push(v);
                    } else {
                        let n = t.below(13);
                        vals.push((0..n).map(|_| gen(t)).collect());
                    }
                }
                let reps = [t.below(nreps as usize) as u8, t.below(nreps as usize) as u8, t.below(nreps as usize) as u8];
                let c = vals.pop().unwrap();
                let b = vals.pop().unwrap();
                let a = vals.pop().unwrap();
                Triple { vals: [a, b, c], reps }
            };
            let found = drive_tapes(seed, cases, 96, |tape| {
                let t = decode(&mut Tape::new(tape));
                let mut ev = Counters::default();
                let r = run(&t, &mut ev);
                if !failed {
                    evals += 1;
                    local.classes.merge(&ev);
                    if nontrivial(&t, nreps) {
                        let h = fnv1a(serde_json::to_string(&t).unwrap_or_default().as_bytes()) ^ fnv1a(uname.as_bytes());
                        if local.nontrivial.insert(h) && sample {
                            sample = false;
                            local.samples.push(json!({"engine": "order", "subject": label, "triple": serde_json::to_value(&t).unwrap_or(Value::Null)}));
                        }
                    }
                    failed = r.is_err();
                }
                r
            });
            local.evaluations = evals;
            if let Some((tape, msg)) = found {
                let t = decode(&mut Tape::new(&tape));
                local.violations.push(Violation {
                    property: property.to_string(),
                    engine: "order".into(),
                    spec: label.clone(),
                    variant: "random".into(),
                    signature: signature(property, "order", &msg),
                    message: msg,
                    size: t.vals.iter().map(|v| v.len()).sum(),
                    case: json!({"engine": "order", "subject": label, "triple": serde_json::to_value(&t).unwrap_or(Value::Null)}),
                });
            }
            p.merge(local);
        }),
    }
}

type NestedU8 = Slice<Mirror<u8>>;

fn gen_u8(t: &mut Tape) -> u8 {
    t.below(3) as u8
}
fn gen_string(t: &mut Tape) -> String {
    ["", "a", "b", "ab", "é", "a\u{301}"][t.below(6)].to_string()
}
fn gen_bytes(t: &mut Tape) -> Vec<u8> {
    let n = t.below(3);
    (0..n).map(|_| t.below(3) as u8).collect()
}
fn gen_f64(t: &mut Tape) -> u64 {
    [0f64.to_bits(), 1f64.to_bits(), (-1f64).to_bits(), 2.5f64.to_bits()][t.below(4)]
}

pub fn units(property: &'static str, thorough: bool, seed: u64) -> Vec<Unit> {
    let mut u = Vec::new();
    let depth = 3;
    let cases = if thorough { 30000 } else { 5000 };
    // slices of u8, three index containers cannot apply (index = u8): Vec only
    u.push(exhaustive_unit::<u8>(property, "Slice<Mirror<u8>>".into(), vec![0, 1], depth, 3, run_slice_ord::<Mirror<u8>, Vec<u8>>));
    u.push(random_unit::<u8>(property, "Slice<Mirror<u8>>".into(), cases, seed, 3, gen_u8, run_slice_ord::<Mirror<u8>, Vec<u8>>));
    // strings
    let strs = small_values::<Str<Owned<u8>>>(2);
    u.push(exhaustive_unit::<String>(property, "Slice<Str>".into(), strs, if thorough { 3 } else { 2 }, 3, run_slice_ord::<Str<Owned<u8>>, Vec<(usize, usize)>>));
    u.push(random_unit::<String>(property, "Slice<Str>".into(), cases, seed, 3, gen_string, run_slice_ord::<Str<Owned<u8>>, Vec<(usize, usize)>>));
    // byte slices
    u.push(random_unit::<Vec<u8>>(property, "Slice<Owned<u8>>".into(), cases, seed, 3, gen_bytes, run_slice_ord::<Owned<u8>, Vec<(usize, usize)>>));
    u.push(exhaustive_unit::<Vec<u8>>(property, "Slice<Owned<u8>>".into(), vec![vec![], vec![0], vec![0, 1]], 2, 3, run_slice_ord::<Owned<u8>, Vec<(usize, usize)>>));
    // nested slices
    u.push(random_unit::<Vec<u8>>(property, "Slice<Slice<Mirror<u8>>>".into(), cases, seed, 3, gen_bytes, run_slice_ord::<NestedU8, Vec<(usize, usize)>>));
    u.push(exhaustive_unit::<Vec<u8>>(property, "Slice<Slice<Mirror<u8>>>".into(), vec![vec![], vec![1], vec![1, 0]], 2, 3, run_slice_ord::<NestedU8, Vec<(usize, usize)>>));
    // usize-indexed inner regions with the compressed index containers
    u.push(random_unit::<String>(property, "Slice<Cip<Str,IndexOptimized>,IndexOptimized>".into(), cases, seed, 3, gen_string, run_slice_ord::<Cip<Str<Owned<u8>>, IO>, IO>));
    u.push(random_unit::<String>(property, "Slice<Cip<Str,IndexOptimized>,IndexList>".into(), cases / 2, seed, 3, gen_string, run_slice_ord::<Cip<Str<Owned<u8>>, IO>, IL>));
    u.push(random_unit::<Vec<u8>>(property, "Slice<Cip<Owned<u8>,Vec>,Vec>".into(), cases / 2, seed, 3, gen_bytes, run_slice_ord::<Cip<Owned<u8>, VU>, VU>));
    // floats: PartialEq / PartialOrd half only (finite values)
    u.push(random_unit::<u64>(property, "Slice<Mirror<f64>>(partial order)".into(), cases / 2, seed, 3, gen_f64, run_float));
    // Huffman
    u.push(exhaustive_unit::<u8>(property, "Huffman<u8>".into(), vec![0, 1, 2], if thorough { 3 } else { 2 }, 4, run_huffman));
    u.push(random_unit::<u8>(property, "Huffman<u8>".into(), cases, seed, 4, |t| t.below(4) as u8, run_huffman));
    u
}

/// f64 slices: equality and partial order by IEEE rules on finite values.
fn run_float(t: &Triple<u64>, ev: &mut Counters) -> Result<(), String> {
    let vals: Vec<Vec<f64>> = t.vals.iter().map(|v| v.iter().map(|b| f64::from_bits(*b)).collect()).collect();
    let mut ra = SliceRegion::<flatcontainer::MirrorRegion<f64>>::default();
    let mut rb = SliceRegion::<flatcontainer::MirrorRegion<f64>>::default();
    let _ = rb.push([7.0f64]);
    let mut idx: Vec<Option<(usize, usize)>> = Vec::new();
    for k in 0..3 {
        idx.push(match t.reps[k] % 3 {
            0 => Some(ra.push(vals[k].as_slice())),
            1 => Some(rb.push(vals[k].as_slice())),
            _ => None,
        });
    }
    ev.hit("float-triple");
    let r = guard(|| -> Result<(), String> {
        let items: Vec<<SliceRegion<flatcontainer::MirrorRegion<f64>> as Region>::ReadItem<'_>> = (0..3)
            .map(|k| match (t.reps[k] % 3, idx[k]) {
                (0, Some(i)) => ra.index(i),
                (1, Some(i)) => rb.index(i),
                _ => IntoOwned::borrow_as(&vals[k]),
            })
            .collect();
        for i in 0..3 {
            for j in 0..3 {
                if (items[i] == items[j]) != (vals[i] == vals[j]) {
                    return Err(format!("float slices {:?} == {:?} is {}, the owned vectors compare {}", vals[i], vals[j], items[i] == items[j], vals[i] == vals[j]));
                }
                if items[i].partial_cmp(&items[j]) != vals[i].partial_cmp(&vals[j]) {
                    return Err(format!("float slices partial_cmp({:?}, {:?}) = {:?}, the owned vectors give {:?}", vals[i], vals[j], items[i].partial_cmp(&items[j]), vals[i].partial_cmp(&vals[j])));
                }
            }
        }
        Ok(())
    });
    match r {
        Ok(x) => x,
        Err(p) => Err(format!("comparison panicked: {p}")),
    }
}

pub fn replay(case: &Value) -> Result<(), String> {
    let subject = case["subject"].as_str().unwrap_or("");
    let mut ev = Counters::default();
    macro_rules! go {
        ($v:ty, $f:expr) => {{
            let t: Triple<$v> = serde_json::from_value(case["triple"].clone()).map_err(|e| e.to_string())?;
            $f(&t, &mut ev)
        }};
    }
    match subject {
        "Slice<Mirror<u8>>" => go!(u8, run_slice_ord::<Mirror<u8>, Vec<u8>>),
        "Slice<Str>" => go!(String, run_slice_ord::<Str<Owned<u8>>, Vec<(usize, usize)>>),
        "Slice<Owned<u8>>" => go!(Vec<u8>, run_slice_ord::<Owned<u8>, Vec<(usize, usize)>>),
        "Slice<Slice<Mirror<u8>>>" => go!(Vec<u8>, run_slice_ord::<NestedU8, Vec<(usize, usize)>>),
        "Slice<Cip<Str,IndexOptimized>,IndexOptimized>" => go!(String, run_slice_ord::<Cip<Str<Owned<u8>>, IO>, IO>),
        "Slice<Cip<Str,IndexOptimized>,IndexList>" => go!(String, run_slice_ord::<Cip<Str<Owned<u8>>, IO>, IL>),
        "Slice<Cip<Owned<u8>,Vec>,Vec>" => go!(Vec<u8>, run_slice_ord::<Cip<Owned<u8>, VU>, VU>),
        "Slice<Mirror<f64>>(partial order)" => go!(u64, run_float),
        "Huffman<u8>" => go!(u8, run_huffman),
        other => Err(format!("unknown subject {other}")),
    }
}
