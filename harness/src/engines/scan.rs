//! Enumeration over the finite program text of /repo/src: `impl Push<X> for R` headers and
//! `unsafe` sites. This is not generated-input search; it backs the "by construction" clause of
//! C04 and the form-coverage health rule of C20.

use std::path::{Path, PathBuf};

use serde_json::json;

use crate::runner::*;

#[derive(Clone, Debug)]
pub struct PushImpl {
    pub file: String,
    pub line: usize,
    pub input: String,
    pub region: String,
}

#[derive(Clone, Debug)]
pub struct UnsafeSite {
    pub file: String,
    pub line: usize,
    pub text: String,
}

fn rs_files(dir: &Path, out: &mut Vec<PathBuf>) {
    if let Ok(rd) = std::fs::read_dir(dir) {
        let mut entries: Vec<PathBuf> = rd.filter_map(|e| e.ok().map(|e| e.path())).collect();
        entries.sort();
        for p in entries {
            if p.is_dir() {
                rs_files(&p, out);
            } else if p.extension().map(|e| e == "rs").unwrap_or(false) {
                out.push(p);
            }
        }
    }
}

/// Replace comments and string literals by spaces (keeps offsets and newlines).
fn strip(src: &str) -> String {
    let b: Vec<char> = src.chars().collect();
    let mut out = String::with_capacity(src.len());
    let mut i = 0;
    while i < b.len() {
        if b[i] == '/' && i + 1 < b.len() && b[i + 1] == '/' {
            while i < b.len() && b[i] != '\n' {
                out.push(' ');
                i += 1;
            }
        } else if b[i] == '/' && i + 1 < b.len() && b[i + 1] == '*' {
            let mut depth = 0;
            while i < b.len() {
                if b[i] == '/' && i + 1 < b.len() && b[i + 1] == '*' {
                    depth += 1;
                    out.push_str("  ");
                    i += 2;
                } else if b[i] == '*' && i + 1 < b.len() && b[i + 1] == '/' {
                    depth -= 1;
                    out.push_str("  ");
                    i += 2;
                    if depth == 0 {
                        break;
                    }
                } else {
                    out.push(if b[i] == '\n' { '\n' } else { ' ' });
                    i += 1;
                }
            }
        } else if b[i] == '"' {
            out.push(' ');
            i += 1;
            while i < b.len() && b[i] != '"' {
                if b[i] == '\\' {
                    out.push(' ');
                    i += 1;
                }
                if i < b.len() {
                    out.push(if b[i] == '\n' { '\n' } else { ' ' });
                    i += 1;
                }
            }
            out.push(' ');
            i += 1;
        } else {
            out.push(b[i]);
            i += 1;
        }
    }
    out
}

/// Extract the balanced `<...>` starting at `open` (index of '<'); returns (inner, end index).
fn balanced(chars: &[char], open: usize) -> Option<(String, usize)> {
    let mut depth = 0i32;
    let mut i = open;
    let mut inner = String::new();
    while i < chars.len() {
        let c = chars[i];
        if c == '<' {
            depth += 1;
            if depth > 1 {
                inner.push(c);
            }
        } else if c == '>' {
            // not part of `->`
            if i > 0 && chars[i - 1] == '-' {
                inner.push(c);
            } else {
                depth -= 1;
                if depth == 0 {
                    return Some((inner, i));
                }
                inner.push(c);
            }
        } else if depth >= 1 {
            inner.push(c);
        }
        i += 1;
    }
    None
}

/// Drop lifetimes and whitespace: `&'a &'b str` -> `&&str`.
pub fn normalize(ty: &str) -> String {
    let mut out = String::new();
    let cs: Vec<char> = ty.chars().collect();
    let mut i = 0;
    while i < cs.len() {
        if cs[i] == '\'' {
            i += 1;
            while i < cs.len() && (cs[i].is_alphanumeric() || cs[i] == '_') {
                i += 1;
            }
        } else if cs[i].is_whitespace() {
            i += 1;
        } else {
            out.push(cs[i]);
            i += 1;
        }
    }
    // leftover separators from removed lifetimes in generic lists: `ReadSlice<,C,O>` -> `ReadSlice<C,O>`
    out.replace("<,", "<")
}

pub fn scan(root: &str) -> (Vec<PushImpl>, Vec<UnsafeSite>, usize) {
    let mut files = Vec::new();
    rs_files(Path::new(root), &mut files);
    let mut impls = Vec::new();
    let mut unsafes = Vec::new();
    for f in &files {
        let Ok(src) = std::fs::read_to_string(f) else { continue };
        let clean = strip(&src);
        let chars: Vec<char> = clean.chars().collect();
        let name = f.to_string_lossy().to_string();
        let line_of = |pos: usize| chars[..pos].iter().filter(|c| **c == '\n').count() + 1;
        // impl headers
        let text: String = chars.iter().collect();
        let mut start = 0;
        while let Some(p) = text[start..].find("impl") {
            let at = start + p;
            start = at + 4;
            // must be a keyword
            let before_ok = at == 0 || !(text.as_bytes()[at - 1].is_ascii_alphanumeric() || text.as_bytes()[at - 1] == b'_');
            let after = text.as_bytes().get(at + 4).copied().unwrap_or(b' ');
            if !before_ok || !(after == b'<' || after.is_ascii_whitespace()) {
                continue;
            }
            // header = up to the first '{' or "where"
            let rest = &text[at..];
            let end = rest.find('{').unwrap_or(rest.len());
            let header = &rest[..end];
            let header = header.split(" where").next().unwrap_or(header);
            let header = header.split("\nwhere").next().unwrap_or(header);
            let hc: Vec<char> = header.chars().collect();
            // skip the impl generics
            let mut i = 4;
            while i < hc.len() && hc[i].is_whitespace() {
                i += 1;
            }
            if i < hc.len() && hc[i] == '<' {
                match balanced(&hc, i) {
                    Some((_, e)) => i = e + 1,
                    None => continue,
                }
            }
            let tail: String = hc[i..].iter().collect();
            let tail_trim = tail.trim_start();
            if !tail_trim.starts_with("Push<") {
                continue;
            }
            let off = tail.len() - tail_trim.len();
            let tc: Vec<char> = tail.chars().collect();
            let Some((input, e)) = balanced(&tc, off + 4) else { continue };
            let after: String = tc[e + 1..].iter().collect();
            let after = after.trim();
            let Some(region) = after.strip_prefix("for") else { continue };
            impls.push(PushImpl { file: name.clone(), line: line_of(at.min(chars.len())), input: normalize(&input), region: normalize(region.trim()) });
        }
        // unsafe tokens
        let mut s2 = 0;
        while let Some(p) = text[s2..].find("unsafe") {
            let at = s2 + p;
            s2 = at + 6;
            let before_ok = at == 0 || !(text.as_bytes()[at - 1].is_ascii_alphanumeric() || text.as_bytes()[at - 1] == b'_');
            let after = text.as_bytes().get(at + 6).copied().unwrap_or(b' ');
            if before_ok && !(after.is_ascii_alphanumeric() || after == b'_') {
                let l = line_of(at.min(chars.len()));
                let line_text = src.lines().nth(l - 1).unwrap_or("").trim().to_string();
                unsafes.push(UnsafeSite { file: name.clone(), line: l, text: line_text });
            }
        }
    }
    (impls, unsafes, files.len())
}

pub fn base_name(region: &str) -> &str {
    region.split('<').next().unwrap_or(region)
}

/// C04, static half: the only unchecked UTF-8 conversion is reachable only through string-typed
/// write paths.
pub fn c04_unit(root: &'static str) -> Unit {
    Unit {
        name: "scan:impl Push<_> for StringRegion + unsafe sites".into(),
        run: Box::new(move |p: &mut Partial, _| {
            let (impls, unsafes, nfiles) = scan(root);
            if nfiles == 0 {
                p.incomplete.push(format!("no source files found under {root}"));
                return;
            }
            let allowed = ["String", "&String", "&str", "&&str"];
            let mut string_impls = Vec::new();
            for im in &impls {
                if base_name(&im.region) == "StringRegion" {
                    p.evaluations += 1;
                    string_impls.push(json!({"file": im.file, "line": im.line, "input": im.input}));
                    if !allowed.contains(&im.input.as_str()) {
                        let msg = format!(
                            "{}:{}: `impl Push<{}> for {}` lets a non-string input type reach StringRegion, whose index() converts bytes with from_utf8_unchecked",
                            im.file, im.line, im.input, im.region
                        );
                        p.violations.push(Violation {
                            property: "C04".into(),
                            engine: "scan".into(),
                            spec: "StringRegion".into(),
                            variant: "static".into(),
                            signature: format!("C04/scan/push-impl-for-StringRegion-with-input-{}", im.input.replace(|c: char| !c.is_ascii_alphanumeric(), "_")),
                            message: msg,
                            size: 0,
                            case: json!({"engine": "scan", "check": "c04"}),
                        });
                    }
                }
            }
            let mut sites = Vec::new();
            for u in &unsafes {
                p.evaluations += 1;
                sites.push(json!({"file": u.file, "line": u.line, "text": u.text}));
            }
            // other unchecked conversions are reported, not judged
            p.notes.push(format!(
                "static scan of {nfiles} files: {} impl Push headers ({} for StringRegion), {} unsafe sites",
                impls.len(), string_impls.len(), unsafes.len()
            ));
            p.samples.push(json!({"engine": "scan", "string_region_push_impls": string_impls, "unsafe_sites": sites}));
            p.exhaustive.push(json!({"space": "impl Push<_> for StringRegion headers and unsafe tokens in /repo/src", "cases": string_impls.len() + unsafes.len(), "complete": true}));
            if string_impls.is_empty() {
                p.incomplete.push("no `impl Push<_> for StringRegion` header found: the scanner no longer understands the source".into());
            }
        }),
    }
}

pub fn replay_c04() -> Result<(), String> {
    let mut p = Partial::default();
    (c04_unit("/repo/src").run)(&mut p, std::time::Instant::now() + std::time::Duration::from_secs(60));
    match p.violations.first() {
        Some(v) => Err(v.message.clone()),
        None => Ok(()),
    }
}

/// The `impl Push` headers of the crate, for the C20 form-coverage report.
pub fn push_headers(root: &str) -> Vec<String> {
    let (impls, _, _) = scan(root);
    let mut v: Vec<String> = impls.iter().map(|i| format!("{} <- {}", base_name(&i.region), i.input)).collect();
    v.sort();
    v.dedup();
    v
}
