//! Huffman container (C06): exact decode at every bit alignment, bit accounting, optimal code
//! lengths against an independent reference, refusal of uncovered symbols, raw mode.

use std::collections::BTreeMap;
use std::time::Instant;

use flatcontainer::impls::huffman_container::HuffmanContainer;
use flatcontainer::{IntoOwned, Push, Region};
use serde::{Deserialize, Serialize};
use serde_json::{json, Value};

use crate::leaves::{huff_decode_bounded, Sym};
use crate::runner::*;
use crate::tape::{fnv1a, Tape};
use crate::util::{guard, Counters};

#[derive(Clone, Debug, PartialEq, Eq, Hash, Serialize, Deserialize)]
pub struct Gen {
    /// items pushed into this generation's container: symbols + input form
    pub items: Vec<(Vec<u16>, u8)>,
    /// items containing at least one uncovered symbol, probed on a clone
    pub refuse: Vec<Vec<u16>>,
    /// additionally merge this many copies of the previous container (counts scale)
    pub copies: u8,
}

#[derive(Clone, Debug, PartialEq, Eq, Hash, Serialize, Deserialize)]
pub struct HuffCase {
    pub wide: bool,
    /// training statistics: (symbol, count)
    pub counts: Vec<(u16, u32)>,
    pub nsrc: u8,
    pub gens: Vec<Gen>,
    /// after the last generation: clear and push these raw items
    pub after_clear: Vec<Vec<u16>>,
}

/// Textbook Huffman: minimum total bits for the given counts (at least one bit per symbol).
pub fn optimal_cost(counts: &[u64]) -> u128 {
    let mut v: Vec<u128> = counts.iter().map(|c| *c as u128).collect();
    if v.is_empty() {
        return 0;
    }
    if v.len() == 1 {
        return v[0];
    }
    // two-queue method on sorted leaves
    v.sort();
    let mut q1: std::collections::VecDeque<u128> = v.into();
    let mut q2: std::collections::VecDeque<u128> = Default::default();
    let mut total = 0u128;
    let mut take = |q1: &mut std::collections::VecDeque<u128>, q2: &mut std::collections::VecDeque<u128>| -> u128 {
        match (q1.front(), q2.front()) {
            (Some(a), Some(b)) => {
                if a <= b {
                    q1.pop_front().unwrap()
                } else {
                    q2.pop_front().unwrap()
                }
            }
            (Some(_), None) => q1.pop_front().unwrap(),
            (None, Some(_)) => q2.pop_front().unwrap(),
            (None, None) => unreachable!(),
        }
    };
    while q1.len() + q2.len() > 1 {
        let a = take(&mut q1, &mut q2);
        let b = take(&mut q1, &mut q2);
        total += a + b;
        q2.push_back(a + b);
    }
    total
}

#[derive(Default, Clone, Debug)]
pub struct HStats {
    pub ev: Counters,
    pub items_checked: usize,
    pub nonzero_start: bool,
}

fn push_form<B: Sym>(c: &mut HuffmanContainer<B>, item: &[B], form: u8) -> (usize, usize) {
    let v: Vec<B> = item.to_vec();
    match form % 8 {
        0 => c.push(item),
        1 => c.push(v),
        2 => c.push(&v),
        3 => crate::arr_dispatch!(v, a => c.push(a), else => c.push(a)),
        4 => crate::arr_dispatch!(v, a => c.push(&a), else => c.push(&a)),
        5 => {
            let mut tmp = HuffmanContainer::<B>::default();
            let i = tmp.push(item);
            c.push(tmp.index(i))
        }
        6 => {
            let b: <HuffmanContainer<B> as Region>::ReadItem<'_> = IntoOwned::borrow_as(&v);
            c.push(b)
        }
        _ => {
            // a read item of another container in its encoded representation
            let mut tmp = HuffmanContainer::<B>::default();
            let _ = tmp.push(item);
            let mut enc = HuffmanContainer::<B>::merge_regions(std::iter::once(&tmp));
            let i = enc.push(item);
            c.push(enc.index(i))
        }
    }
}

fn read_exact<B: Sym>(c: &HuffmanContainer<B>, idx: (usize, usize), want: &[B], what: &str) -> Result<(), String> {
    let r = guard(|| {
        let item = c.index(idx);
        let got = huff_decode_bounded::<B>(&item, want.len() + 1);
        if got.as_slice() != want {
            return Err(format!("{what} at bits {:?} decodes to {:?}, pushed {:?}", idx, got, want));
        }
        let o: Vec<B> = IntoOwned::into_owned(item);
        if o.as_slice() != want {
            return Err(format!("{what} at bits {:?}: into_owned {:?}, pushed {:?}", idx, o, want));
        }
        Ok(())
    });
    match r {
        Ok(x) => x,
        Err(p) => Err(format!("{what} at bits {:?} (pushed {:?}): reading panicked: {p}", idx, want)),
    }
}

pub fn run_case<B: Sym>(case: &HuffCase, st: &mut HStats) -> Result<(), String> {
    let conv = |xs: &[u16]| -> Vec<B> { xs.iter().map(|x| B::from_u16(*x)).collect() };
    // ---- generation 0: raw containers with the training statistics -------------------------
    let nsrc = case.nsrc.max(1) as usize;
    let mut sources: Vec<HuffmanContainer<B>> = (0..nsrc).map(|_| HuffmanContainer::default()).collect();
    let mut counts: BTreeMap<B, u64> = BTreeMap::new();
    let mut raw_items: Vec<Vec<(usize, (usize, usize), Vec<B>)>> = vec![Vec::new(); nsrc];
    let mut k = 0usize;
    for (sym, count) in &case.counts {
        let s = B::from_u16(*sym);
        let mut left = *count as usize;
        while left > 0 {
            let n = if left > 4096 { left.min(8192) } else { left.min(64) };
            let item: Vec<B> = vec![s; n];
            let src = k % nsrc;
            k += 1;
            let c = &mut sources[src];
            let idx = guard(|| c.push(item.as_slice())).map_err(|p| format!("raw push panicked: {p}"))?;
            raw_items[src].push((src, idx, item));
            *counts.entry(s).or_insert(0) += n as u64;
            left -= n;
        }
    }
    // raw mode stores symbols verbatim: offsets are symbol positions, everything round-trips
    for (src, items) in raw_items.iter().enumerate() {
        let mut off = 0usize;
        for (_, idx, item) in items {
            if *idx != (off, off + item.len()) {
                return Err(format!("raw container: push returned {:?}, expected {:?}", idx, (off, off + item.len())));
            }
            off += item.len();
            read_exact(&sources[src], *idx, item, "raw item")?;
        }
    }
    let mut prev: Vec<HuffmanContainer<B>> = sources;
    // ---- generations -----------------------------------------------------------------------
    for (g, gen) in case.gens.iter().enumerate() {
        let copies = 1 + (gen.copies % 3) as usize;
        let refs: Vec<&HuffmanContainer<B>> = prev.iter().flat_map(|c| std::iter::repeat(c).take(copies)).collect();
        for v in counts.values_mut() {
            *v *= copies as u64;
        }
        let mut merged = guard(|| HuffmanContainer::<B>::merge_regions(refs.iter().copied()))
            .map_err(|p| format!("generation {g}: merge_regions panicked for counts {:?}: {p}", brief_counts(&counts)))?;
        drop(refs);
        st.ev.hit(&format!("generation-{}", g.min(3)));
        if counts.len() == 1 {
            st.ev.hit("single-symbol-alphabet");
        }
        if counts.len() > 256 {
            st.ev.hit("alphabet>256");
        }
        if counts.is_empty() {
            st.ev.hit("empty-statistics");
        }
        // code lengths, measured on a probe clone
        let mut lens: BTreeMap<B, usize> = BTreeMap::new();
        {
            let mut probe = merged.clone();
            for s in counts.keys() {
                let idx = guard(|| probe.push([*s].as_slice())).map_err(|p| format!("generation {g}: pushing the covered symbol {:?} panicked: {p}", s))?;
                if idx.1 < idx.0 {
                    return Err(format!("generation {g}: push returned a reversed bit range {:?}", idx));
                }
                lens.insert(*s, idx.1 - idx.0);
            }
        }
        let mut kraft: u128 = 0;
        let mut cost: u128 = 0;
        let mut maxlen = 0usize;
        for (s, l) in &lens {
            if *l == 0 {
                return Err(format!("generation {g}: symbol {:?} has a zero-bit code (counts {:?})", s, brief_counts(&counts)));
            }
            if *l > 64 {
                return Err(format!("generation {g}: symbol {:?} has a {l}-bit code", s));
            }
            kraft += 1u128 << (64 - *l);
            cost += counts[s] as u128 * *l as u128;
            maxlen = maxlen.max(*l);
        }
        if kraft > 1u128 << 64 {
            return Err(format!("generation {g}: code lengths {:?} violate the Kraft inequality (not a prefix code)", brief_lens(&lens)));
        }
        let cvec: Vec<u64> = counts.values().copied().collect();
        let best = optimal_cost(&cvec);
        if cost != best {
            return Err(format!(
                "generation {g}: code is not optimal: total {cost} bits for the merged statistics, an optimal prefix code needs {best} (counts {:?}, lengths {:?})",
                brief_counts(&counts), brief_lens(&lens)
            ));
        }
        if maxlen >= 9 {
            st.ev.hit("max-code-length>=9");
        }
        if maxlen >= 17 {
            st.ev.hit("max-code-length>=17");
        }
        // pushes
        let mut issued: Vec<((usize, usize), Vec<B>)> = Vec::new();
        let mut cursor = 0usize;
        let mut new_counts: BTreeMap<B, u64> = BTreeMap::new();
        for (j, (item16, form)) in gen.items.iter().enumerate() {
            let item = conv(item16);
            if !item.iter().all(|s| lens.contains_key(s)) {
                // not covered: belongs to the refusal probes, skip here
                continue;
            }
            let bits: usize = item.iter().map(|s| lens[s]).sum();
            let idx = {
                let m = &mut merged;
                guard(|| push_form(m, &item, *form)).map_err(|p| format!("generation {g}: push #{j} of covered symbols {:?} (form {}) panicked: {p}", item, form % 8))?
            };
            if idx.0 != cursor {
                return Err(format!("generation {g}: push #{j} starts at bit {}, the previous item ended at bit {cursor}", idx.0));
            }
            if idx.1 < idx.0 || idx.1 - idx.0 != bits {
                return Err(format!(
                    "generation {g}: push #{j} of {:?} occupies bits {:?} = {} bits, the code lengths sum to {bits}",
                    item, idx, idx.1.wrapping_sub(idx.0)
                ));
            }
            cursor = idx.1;
            st.ev.hit(&format!("start-offset-{}", idx.0 % 8));
            st.ev.hit(&format!("end-offset-{}", idx.1 % 8));
            if idx.0 % 8 != 0 {
                st.nonzero_start = true;
            }
            let whole = (idx.1 / 8).saturating_sub((idx.0 + 7) / 8);
            st.ev.hit(match whole {
                0 => "item-spans-0-whole-bytes",
                1 => "item-spans-1-whole-byte",
                _ => "item-spans-2+-whole-bytes",
            });
            if item.is_empty() {
                st.ev.hit("empty-item");
                if !issued.is_empty() {
                    st.ev.hit("empty-item-between-items");
                }
            }
            for s in &item {
                *new_counts.entry(*s).or_insert(0) += 1;
            }
            issued.push((idx, item));
            // append-only at bit granularity: every earlier item still decodes
            for (i2, it2) in &issued {
                read_exact(&merged, *i2, it2, &format!("generation {g}: item"))?;
                st.items_checked += 1;
            }
        }
        // refusal probes on clones
        for item16 in &gen.refuse {
            let item = conv(item16);
            if item.iter().all(|s| lens.contains_key(s)) {
                continue;
            }
            st.ev.hit("refusal-probe");
            let mut probe = merged.clone();
            let r = guard(|| probe.push(item.as_slice()));
            if let Ok(idx) = r {
                let got = guard(|| {
                    let it = probe.index(idx);
                    huff_decode_bounded::<B>(&it, item.len() + 1)
                });
                return Err(format!(
                    "generation {g}: push of {:?}, which contains a symbol outside the merged statistics, was not refused: returned bits {:?}, reading it back gives {:?}",
                    item, idx, got
                ));
            }
        }
        // encoded item pushed into a raw container and into a clone of this container
        if let Some((idx, item)) = issued.last() {
            let mut raw = HuffmanContainer::<B>::default();
            let i2 = {
                let m = &merged;
                guard(|| raw.push(m.index(*idx))).map_err(|p| format!("generation {g}: pushing an encoded item into a raw container panicked: {p}"))?
            };
            read_exact(&raw, i2, item, "encoded item copied into a raw container")?;
            let mut enc = merged.clone();
            let i3 = {
                let m = &merged;
                guard(|| enc.push(m.index(*idx))).map_err(|p| format!("generation {g}: pushing an encoded item into an encoded container panicked: {p}"))?
            };
            read_exact(&enc, i3, item, "encoded item copied into an encoded container")?;
            st.ev.hit("encoded-item-copied");
        }
        counts = new_counts;
        prev = vec![merged];
    }
    // ---- clear: back to raw mode, everything round-trips ---------------------------------------
    if let Some(mut c) = prev.pop() {
        if !case.after_clear.is_empty() {
            guard(|| c.clear()).map_err(|p| format!("clear panicked: {p}"))?;
            let mut off = 0usize;
            let mut issued = Vec::new();
            for item16 in &case.after_clear {
                let item = conv(item16);
                let idx = guard(|| c.push(item.as_slice())).map_err(|p| format!("after clear: push of {:?} panicked (a cleared container stores raw symbols and accepts everything): {p}", item))?;
                if idx != (off, off + item.len()) {
                    return Err(format!("after clear: push returned {:?}, a cleared container must behave like a new one and return {:?}", idx, (off, off + item.len())));
                }
                off += item.len();
                issued.push((idx, item));
                for (i2, it2) in &issued {
                    read_exact(&c, *i2, it2, "after clear: item")?;
                }
            }
            st.ev.hit("clear-then-raw");
        }
    }
    Ok(())
}

fn brief_counts<B: Sym>(c: &BTreeMap<B, u64>) -> String {
    let v: Vec<(B, u64)> = c.iter().take(12).map(|(k, v)| (*k, *v)).collect();
    if c.len() > 12 {
        format!("{:?}.. ({} symbols)", v, c.len())
    } else {
        format!("{:?}", v)
    }
}
fn brief_lens<B: Sym>(c: &BTreeMap<B, usize>) -> String {
    let v: Vec<(B, usize)> = c.iter().take(12).map(|(k, v)| (*k, *v)).collect();
    if c.len() > 12 {
        format!("{:?}.. ({} symbols)", v, c.len())
    } else {
        format!("{:?}", v)
    }
}

pub fn run_any(case: &HuffCase, st: &mut HStats) -> Result<(), String> {
    if case.wide {
        run_case::<u16>(case, st)
    } else {
        run_case::<u8>(case, st)
    }
}

fn fib(n: usize) -> u32 {
    let (mut a, mut b) = (1u32, 1u32);
    for _ in 0..n {
        let c = a + b;
        a = b;
        b = c;
    }
    a
}

/// Decode a random case from the tape.
pub fn decode_case(t: &mut Tape, thorough: bool) -> HuffCase {
    let profile = t.below(11);
    let mut wide = t.chance(64);
    let counts: Vec<(u16, u32)> = match profile {
        0 => vec![(t.below(200) as u16, 1 + t.below(20) as u32)],
        1 => {
            // equal counts over 2^k or 2^k +- 1 symbols
            let k = 1 + t.below(6);
            let n = ((1usize << k) as isize + [0isize, 1, -1][t.below(3)]).max(1) as usize;
            let c = 1 + t.below(3) as u32;
            (0..n).map(|i| (i as u16, c)).collect()
        }
        2 => {
            // Fibonacci counts: code lengths up to n-1
            let n = 2 + t.below(if thorough { 22 } else { 17 });
            (0..n).map(|i| (i as u16, fib(i))).collect()
        }
        3 => {
            // geometric
            let n = 2 + t.below(12);
            (0..n).map(|i| (i as u16, 1u32 << i.min(14))).collect()
        }
        4 => {
            // more than 256 equiprobable symbols
            wide = true;
            let n = 257 + t.below(if thorough { 500 } else { 120 });
            let c = 1 + t.below(2) as u32;
            (0..n).map(|i| (i as u16 * 3, c)).collect()
        }
        5 => Vec::new(),
        6 => {
            // one dominant symbol with a count around 2^16 (or 2^20) and a few rare symbols
            let dom = match t.below(4) {
                0 => 65535,
                1 => 65536 + t.below(9000) as u32,
                2 => 60000 + t.below(5000) as u32,
                _ => 1 << 20,
            };
            let nr = 2 + t.below(5);
            let mut v = vec![(0u16, dom)];
            for i in 0..nr {
                v.push((1 + i as u16, 1 + t.below(8) as u32));
            }
            v
        }
        _ => {
            let n = 1 + t.below(12);
            (0..n).map(|i| { let hi = if t.bool() { 4 } else { 60 }; ((i * 7 % 251) as u16, 1 + t.below(hi) as u32) }).collect()
        }
    };
    let syms: Vec<u16> = counts.iter().map(|c| c.0).collect();
    let nsrc = 1 + t.below(4) as u8;
    let ngen = 1 + t.below(3);
    let mut gens = Vec::new();
    let mut alphabet = syms.clone();
    for _ in 0..ngen {
        let nitems = t.len(8, 40);
        let mut items = Vec::new();
        for _ in 0..nitems {
            let len = match t.below(8) {
                0 => 0,
                1 => 1,
                2 => 8,
                3 if t.chance(12) => 3000 + t.below(6000), // the bit cursor crosses 2^16
                3 => 16 + t.below(24),
                _ => t.below(12),
            };
            let item: Vec<u16> = if alphabet.is_empty() {
                Vec::new()
            } else if t.chance(40) {
                vec![alphabet[t.below(alphabet.len())]; len]
            } else {
                (0..len).map(|_| alphabet[t.below(alphabet.len())]).collect()
            };
            items.push((item, t.u8()));
        }
        let nref = t.below(3);
        let mut refuse = Vec::new();
        for _ in 0..nref {
            // a symbol that is certainly not in the alphabet (odd multiples / high values)
            let outsider = 1 + 3 * (250 + t.below(1000) as u16) % 60000;
            let outsider = if wide { outsider } else { (outsider % 256).max(1) };
            let nn = t.below(4);
            let mut item: Vec<u16> = (0..nn).filter_map(|_| alphabet.get(t.below(alphabet.len().max(1))).copied()).collect();
            let at = t.below(item.len() + 1);
            item.insert(at, outsider);
            refuse.push(item);
        }
        // next generation's alphabet = symbols actually pushed
        let mut next: Vec<u16> = items.iter().flat_map(|i| i.0.iter().copied()).collect();
        next.sort();
        next.dedup();
        gens.push(Gen { items, refuse, copies: t.below(3) as u8 });
        alphabet = next;
    }
    let nclear = t.below(4);
    let after_clear = (0..nclear)
        .map(|_| { let nn = t.below(6); (0..nn).map(|_| if wide { t.u16() } else { t.u8() as u16 }).collect() })
        .collect();
    HuffCase { wide, counts, nsrc, gens, after_clear }
}

fn simplify(case: &HuffCase) -> Vec<HuffCase> {
    let mut out = Vec::new();
    if case.gens.len() > 1 {
        let mut c = case.clone();
        c.gens.pop();
        out.push(c);
    }
    if !case.after_clear.is_empty() {
        let mut c = case.clone();
        c.after_clear.clear();
        out.push(c);
    }
    if case.nsrc > 1 {
        let mut c = case.clone();
        c.nsrc = 1;
        out.push(c);
    }
    for g in 0..case.gens.len() {
        let gen = &case.gens[g];
        if !gen.refuse.is_empty() {
            let mut c = case.clone();
            c.gens[g].refuse.clear();
            out.push(c);
        }
        if gen.copies != 0 {
            let mut c = case.clone();
            c.gens[g].copies = 0;
            out.push(c);
        }
        let n = gen.items.len();
        if n > 0 {
            for (a, b) in [(0, n / 2), (n / 2, n), (0, 1), (n - 1, n)] {
                if a < b {
                    let mut c = case.clone();
                    c.gens[g].items.drain(a..b);
                    out.push(c);
                }
            }
            for i in 0..n.min(6) {
                let it = &gen.items[i];
                if it.0.len() > 1 {
                    let mut c = case.clone();
                    c.gens[g].items[i].0.truncate(it.0.len() / 2);
                    out.push(c);
                    let mut c = case.clone();
                    c.gens[g].items[i].0.remove(0);
                    out.push(c);
                }
                if it.1 % 8 != 0 {
                    let mut c = case.clone();
                    c.gens[g].items[i].1 = 0;
                    out.push(c);
                }
            }
        }
    }
    if case.counts.len() > 1 {
        let mut c = case.clone();
        c.counts.pop();
        out.push(c);
        let mut c = case.clone();
        c.counts.remove(0);
        out.push(c);
    }
    for i in 0..case.counts.len().min(8) {
        if case.counts[i].1 > 1 {
            let mut c = case.clone();
            c.counts[i].1 = 1;
            out.push(c);
            let mut c = case.clone();
            c.counts[i].1 /= 2;
            out.push(c);
        }
    }
    out
}

fn shrink_case(case: HuffCase, mut fails: impl FnMut(&HuffCase) -> bool) -> HuffCase {
    let mut cur = case;
    let mut budget = 1500usize;
    loop {
        let mut improved = false;
        for cand in simplify(&cur) {
            if budget == 0 {
                return cur;
            }
            budget -= 1;
            if fails(&cand) {
                cur = cand;
                improved = true;
                break;
            }
        }
        if !improved {
            return cur;
        }
    }
}

fn case_json(case: &HuffCase) -> Value {
    json!({"engine": "huffman", "case": serde_json::to_value(case).unwrap()})
}

fn nontrivial(case: &HuffCase, st: &HStats) -> bool {
    !case.gens.is_empty() && st.items_checked >= 2 && st.nonzero_start
}

pub fn random_unit(property: &'static str, cases: u32, seed: u64, thorough: bool, part: usize) -> Unit {
    let name = format!("huffman#random[{part}]");
    let uname = name.clone();
    Unit {
        name,
        run: Box::new(move |p: &mut Partial, _deadline: Instant| {
            let seed = derive_seed(seed, &[property, "huffman-random", &part.to_string()]);
            let mut evals = 0u64;
            let mut failed = false;
            let mut local = Partial::default();
            let mut sample = part == 0;
            let found = drive_tapes(seed, cases, 700, |tape| {
                let case = decode_case(&mut Tape::new(tape), thorough);
                let mut st = HStats::default();
                let r = run_any(&case, &mut st);
                if !failed {
                    evals += 1;
                    if local.fallback_sample.is_none() {
                        local.fallback_sample = Some(case_json(&case));
                    }
                    local.classes.merge(&st.ev);
                    if nontrivial(&case, &st) {
                        let h = fnv1a(serde_json::to_string(&case).unwrap().as_bytes());
                        if local.nontrivial.insert(h) && sample && case.counts.len() <= 4 && case.gens.iter().all(|g| g.items.len() <= 4) {
                            sample = false;
                            local.samples.push(case_json(&case));
                        }
                    }
                    failed = r.is_err();
                }
                r
            });
            local.evaluations = evals;
            if let Some((tape, msg)) = found {
                let case = decode_case(&mut Tape::new(&tape), thorough);
                let want = message_class(&msg);
                let shrunk = shrink_case(case, |c| {
                    let mut st = HStats::default();
                    matches!(run_any(c, &mut st), Err(m) if message_class(&m) == want)
                });
                let mut st = HStats::default();
                let final_msg = run_any(&shrunk, &mut st).err().unwrap_or(msg);
                local.violations.push(Violation {
                    property: property.to_string(),
                    engine: "huffman".into(),
                    spec: if shrunk.wide { "Huffman<u16>".into() } else { "Huffman<u8>".into() },
                    variant: uname.clone(),
                    signature: signature(property, "huffman", &final_msg),
                    message: final_msg,
                    size: shrunk.gens.iter().map(|g| g.items.len()).sum::<usize>() + shrunk.counts.len(),
                    case: case_json(&shrunk),
                });
            }
            p.merge(local);
        }),
    }
}

/// Bounded-exhaustive: every sorted count multiset over <= `max_syms` symbols with counts from
/// `count_set`, crossed with every sequence of <= `max_items` items of <= `max_item_len` symbols
/// over the first min(3, n) symbols, plus run-length items that reach every bit offset.
pub fn exhaustive_unit(
    property: &'static str,
    nsyms: usize,
    count_set: Vec<u32>,
    max_items: usize,
    max_item_len: usize,
) -> Unit {
    let name = format!("huffman#exh(symbols={nsyms},counts={:?},items<={max_items}x{max_item_len})", count_set);
    let uname = name.clone();
    Unit {
        name,
        run: Box::new(move |p: &mut Partial, deadline: Instant| {
            let mut local = Partial::default();
            let mut complete = true;
            // sorted multisets of counts
            let mut multisets: Vec<Vec<u32>> = Vec::new();
            fn rec(set: &[u32], n: usize, start: usize, cur: &mut Vec<u32>, out: &mut Vec<Vec<u32>>) {
                if cur.len() == n {
                    out.push(cur.clone());
                    return;
                }
                for i in start..set.len() {
                    cur.push(set[i]);
                    rec(set, n, i, cur, out);
                    cur.pop();
                }
            }
            rec(&count_set, nsyms, 0, &mut Vec::new(), &mut multisets);
            // all items
            let k = nsyms.min(3);
            let mut all_items: Vec<Vec<u16>> = vec![Vec::new()];
            let mut frontier: Vec<Vec<u16>> = vec![Vec::new()];
            for _ in 0..max_item_len {
                let mut next = Vec::new();
                for f in &frontier {
                    for s in 0..k {
                        let mut g = f.clone();
                        g.push(s as u16);
                        next.push(g);
                    }
                }
                all_items.extend(next.iter().cloned());
                frontier = next;
            }
            let mut seen: std::collections::HashSet<String> = Default::default();
            let mut count = 0u64;
            let mut nontriv = 0u64;
            'outer: for ms in &multisets {
                let counts: Vec<(u16, u32)> = ms.iter().enumerate().map(|(i, c)| (i as u16, *c)).collect();
                // item sequences (odometer over all_items)
                for nitems in 0..=max_items {
                    let mut idx = vec![0usize; nitems];
                    loop {
                        let items: Vec<(Vec<u16>, u8)> = idx.iter().map(|i| (all_items[*i].clone(), 0u8)).collect();
                        let case = HuffCase { wide: false, counts: counts.clone(), nsrc: 1, gens: vec![Gen { items, refuse: vec![vec![200]], copies: 0 }], after_clear: Vec::new() };
                        let mut st = HStats::default();
                        let r = run_case::<u8>(&case, &mut st);
                        count += 1;
                        if nontrivial(&case, &st) {
                            nontriv += 1;
                        }
                        if count % 2048 == 0 {
                            local.classes.merge(&st.ev);
                            if Instant::now() >= deadline {
                                complete = false;
                                break 'outer;
                            }
                        }
                        if let Err(msg) = r {
                            if seen.insert(message_class(&msg)) {
                                let want = message_class(&msg);
                                let shrunk = shrink_case(case, |c| {
                                    let mut st = HStats::default();
                                    matches!(run_any(c, &mut st), Err(m) if message_class(&m) == want)
                                });
                                let mut st = HStats::default();
                                let final_msg = run_any(&shrunk, &mut st).err().unwrap_or(msg);
                                local.violations.push(Violation {
                                    property: property.to_string(),
                                    engine: "huffman".into(),
                                    spec: "Huffman<u8>".into(),
                                    variant: "exh".into(),
                                    signature: signature(property, "huffman", &final_msg),
                                    message: final_msg,
                                    size: 1,
                                    case: case_json(&shrunk),
                                });
                            }
                        }
                        let mut pos = nitems;
                        let mut done = true;
                        while pos > 0 {
                            pos -= 1;
                            idx[pos] += 1;
                            if idx[pos] < all_items.len() {
                                done = false;
                                break;
                            }
                            idx[pos] = 0;
                        }
                        if done {
                            break;
                        }
                    }
                }
                // run-length pairs: first item sets the bit offset, second spans whole bytes
                for s in 0..nsyms {
                    for a in 0..=9usize {
                        for b in [0usize, 1, 7, 8, 9, 17, 24] {
                            let items = vec![(vec![s as u16; a], 0u8), (vec![((s + 1) % nsyms) as u16; b], 2u8), (vec![s as u16; 3], 1u8)];
                            let case = HuffCase { wide: true, counts: counts.clone(), nsrc: 2, gens: vec![Gen { items, refuse: Vec::new(), copies: 0 }], after_clear: vec![vec![9, 9]] };
                            let mut st = HStats::default();
                            let r = run_case::<u16>(&case, &mut st);
                            count += 1;
                            local.classes.merge(&st.ev);
                            if nontrivial(&case, &st) {
                                nontriv += 1;
                            }
                            if let Err(msg) = r {
                                if seen.insert(message_class(&msg)) {
                                    local.violations.push(Violation {
                                        property: property.to_string(),
                                        engine: "huffman".into(),
                                        spec: "Huffman<u16>".into(),
                                        variant: "exh-runs".into(),
                                        signature: signature(property, "huffman", &msg),
                                        message: msg,
                                        size: 3,
                                        case: case_json(&case),
                                    });
                                }
                            }
                        }
                    }
                }
            }
            local.evaluations = count;
            local.nontrivial_enumerated = nontriv;
            local.exhaustive.push(json!({"space": uname, "count_multisets": multisets.len(), "items": all_items.len(), "cases": count, "complete": complete}));
            if !complete {
                local.incomplete.push(format!("{uname}: enumeration stopped at the deadline"));
            }
            p.merge(local);
        }),
    }
}

/// Fibonacci statistics over 30..36 symbols: code lengths beyond 32 bits (fixed cases; the raw
/// training data is tens of megabytes, so only a handful).
pub fn deep_codes_unit(property: &'static str, sizes: Vec<usize>) -> Unit {
    Unit {
        name: format!("huffman#deep-codes{:?}", sizes),
        run: Box::new(move |p: &mut Partial, _deadline: Instant| {
            for n in &sizes {
                let counts: Vec<(u16, u32)> = (0..*n).map(|i| (i as u16, fib(i))).collect();
                // items that end in / consist of the deepest symbols, at every start offset
                let mut items: Vec<(Vec<u16>, u8)> = Vec::new();
                for pad in 0..9usize {
                    let mut it = vec![(*n as u16) - 1; pad];
                    it.push(0);
                    it.push(1);
                    it.push((*n as u16) - 1);
                    items.push((it, (pad % 5) as u8));
                    items.push((vec![2, 0, 3, 1], 2));
                }
                let case = HuffCase { wide: false, counts, nsrc: 2, gens: vec![Gen { items, refuse: vec![vec![250]], copies: 0 }], after_clear: vec![vec![1, 2, 3]] };
                let mut st = HStats::default();
                let r = run_any(&case, &mut st);
                p.evaluations += 1;
                p.classes.merge(&st.ev);
                p.classes.hit("deep-codes-case");
                if nontrivial(&case, &st) {
                    p.nontrivial.insert(fnv1a(format!("deep-codes-{n}").as_bytes()));
                }
                if let Err(msg) = r {
                    p.violations.push(Violation {
                        property: property.to_string(),
                        engine: "huffman".into(),
                        spec: "Huffman<u8>".into(),
                        variant: "deep-codes".into(),
                        signature: signature(property, "huffman", &msg),
                        message: msg,
                        size: *n,
                        case: case_json(&case),
                    });
                }
            }
        }),
    }
}

pub fn units(property: &'static str, thorough: bool, seed: u64) -> Vec<Unit> {
    let mut u = Vec::new();
    u.push(deep_codes_unit(property, if thorough { vec![30, 33, 34, 35, 36] } else { vec![34] }));
    let counts = if thorough { vec![1, 2, 3, 5, 8] } else { vec![1, 2, 3, 5] };
    let max_syms = if thorough { 5 } else { 4 };
    for n in 1..=max_syms {
        u.push(exhaustive_unit(property, n, counts.clone(), if thorough { 3 } else { 2 }, if thorough { 3 } else { 2 }));
    }
    let parts = 16;
    let cases = if thorough { 10000 } else { 2000 };
    for part in 0..parts {
        u.push(random_unit(property, cases, seed, thorough, part));
    }
    u
}

pub fn replay(case: &Value) -> Result<(), String> {
    let c: HuffCase = serde_json::from_value(case["case"].clone()).map_err(|e| e.to_string())?;
    let mut st = HStats::default();
    run_any(&c, &mut st)
}
