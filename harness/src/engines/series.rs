//! C18 over long push series: thousands of pushes into one default region (no clear, merge or
//! clone in between), the heap_size invariants checked after every push. Reaches state that only
//! changes after many pushes (summaries that compact themselves, index lists that switch
//! representation, growth steps of every storage) which the 40-300 operation histories cannot.

use std::time::Instant;

use flatcontainer::Region;
use serde_json::{json, Value};

use crate::catalogue::{self, Visitor};
use crate::engines::alloc::{log_pool, LOG_POOLS};
use crate::runner::{signature, Partial, Unit, Violation};
use crate::spec::*;
use crate::tape::fnv1a;
use crate::util::guard;

/// Push `n` items drawn from pool `kind`; returns the failing step and message.
pub fn run_series<S: Spec>(n: usize, kind: usize) -> Result<(), (usize, String)> {
    let pool: Vec<S::V> = log_pool::<S>(kind);
    let mut region = S::R::default();
    let mut pushed: Vec<&S::V> = Vec::with_capacity(n);
    let mut prev_used = used_sum(&region);
    for i in 0..n {
        let v = &pool[(i * 7 + i / 3) % pool.len()];
        let r = &mut region;
        // alternate between the canonical form and the form picked by the position
        let form = [(i % 5) as u8, (i % 3) as u8, (i % 7) as u8];
        let res = guard(|| {
            let mut f = if i % 2 == 0 { Forms::canonical() } else { Forms::new(&form) };
            let _ = S::push_via(&mut RegionSink(r), v, &mut f);
        });
        if let Err(p) = res {
            return Err((i, format!("push #{i} panicked: {p}")));
        }
        pushed.push(v);
        let mut used = 0usize;
        let mut bad: Option<(usize, usize, usize)> = None;
        let mut k = 0usize;
        region.heap_size(|u, c| {
            used += u;
            if u > c && bad.is_none() {
                bad = Some((k, u, c));
            }
            k += 1;
        });
        if let Some((k, u, c)) = bad {
            return Err((i, format!("after push #{i}: heap_size pair #{k} reports used {u} > capacity {c}")));
        }
        if used < prev_used {
            return Err((i, format!("Σused decreased on push #{i}: {prev_used} -> {used}")));
        }
        prev_used = used;
        if (i + 1).is_power_of_two() || i + 1 == n {
            let (lo, _) = S::used_bounds(&pushed);
            if used < lo {
                return Err((i, format!("after {} pushes Σused = {used} is below the payload+index lower bound {lo} of what is stored", i + 1)));
            }
        }
    }
    // the clear rule
    let hb = heap_pairs(&region);
    if let Err(p) = guard(|| region.clear()) {
        return Err((n, format!("clear panicked: {p}")));
    }
    let ha = heap_pairs(&region);
    if ha.len() < hb.len() {
        return Err((n, format!("clear: number of reported (used,capacity) pairs shrank {} -> {}", hb.len(), ha.len())));
    }
    for (k, (b, a)) in hb.iter().zip(ha.iter()).enumerate() {
        if a.1 < b.1 {
            return Err((n, format!("clear: reported capacity #{k} shrank {} -> {}", b.1, a.1)));
        }
    }
    let ua: usize = ha.iter().map(|p| p.0).sum();
    let ever: Vec<&S::V> = pool.iter().collect();
    let allowed = S::cleared_used_max(&ever);
    if ua > allowed {
        return Err((n, format!("clear: Σused = {ua} after clear, but only {allowed} bytes of retained structure may stay accounted")));
    }
    Ok(())
}

fn series_unit<S: Spec>(property: &'static str, max_pow: u32, only: Option<(usize, u32)>) -> Unit {
    let name = format!("series:{}", S::name());
    let uname = name.clone();
    Unit {
        name,
        run: Box::new(move |p: &mut Partial, _deadline: Instant| {
            for pool in 0..LOG_POOLS {
                // the wide and extreme pools hold larger values: shorter series; coded regions
                // pay per push for their dictionaries
                let top = if pool == 0 { max_pow } else { max_pow.min(11) };
                let pows: Vec<u32> = match only {
                    Some((op, pw)) => {
                        if op != pool {
                            continue;
                        }
                        vec![pw]
                    }
                    None => vec![top],
                };
                for pow in pows {
                    let n = 1usize << pow;
                    p.evaluations += 1;
                    p.classes.hit(["series-pool:small", "series-pool:wide", "series-pool:extreme"][pool]);
                    p.nontrivial.insert(fnv1a(format!("{uname}:{pool}:{n}").as_bytes()));
                    if p.samples.len() < 1 && pool == 1 {
                        p.samples.push(json!({"engine": "series", "spec": S::name(), "pool": pool, "pushes": n}));
                    }
                    if let Err((step, msg)) = run_series::<S>(n, pool) {
                        // smallest power of two that still fails (the replayable size)
                        let mut small = pow;
                        let mut m = msg.clone();
                        for q in 1..pow {
                            if (1usize << q) > step {
                                if let Err((_, m2)) = run_series::<S>(1usize << q, pool) {
                                    small = q;
                                    m = m2;
                                    break;
                                }
                            }
                        }
                        p.violations.push(Violation {
                            property: property.to_string(),
                            engine: "series".into(),
                            spec: S::name(),
                            variant: "series".into(),
                            signature: signature(property, "series", &m),
                            message: format!("pool {pool}, {} pushes into a default region: {m}", 1usize << small),
                            size: small as usize,
                            case: json!({"engine": "series", "spec": S::name(), "pow": small, "pool": pool}),
                        });
                        return;
                    }
                }
            }
        }),
    }
}

struct Collector {
    property: &'static str,
    max_pow: u32,
    units: Vec<Unit>,
}
impl Visitor for Collector {
    fn visit<S: Spec>(&mut self, _caps: Caps<S::R>) {
        if S::HEAP {
            self.units.push(series_unit::<S>(self.property, self.max_pow, None));
        }
    }
}

pub fn units(property: &'static str, thorough: bool) -> Vec<Unit> {
    let mut c = Collector { property, max_pow: if thorough { 14 } else { 12 }, units: Vec::new() };
    catalogue::all(&mut c);
    c.units
}

struct Replayer<'a> {
    spec: &'a str,
    case: &'a Value,
    result: Option<Result<(), String>>,
}
impl<'a> Visitor for Replayer<'a> {
    fn visit<S: Spec>(&mut self, _caps: Caps<S::R>) {
        if self.result.is_some() || S::name() != self.spec {
            return;
        }
        let pow = self.case.get("pow").and_then(|p| p.as_u64()).unwrap_or(10) as u32;
        let pool = self.case.get("pool").and_then(|p| p.as_u64()).unwrap_or(0) as usize;
        self.result = Some(run_series::<S>(1usize << pow.min(20), pool % LOG_POOLS).map_err(|(_, m)| m));
    }
}

pub fn replay(case: &Value) -> Result<(), String> {
    let spec = case.get("spec").and_then(|s| s.as_str()).ok_or("series replay: no spec")?;
    let mut r = Replayer { spec, case, result: None };
    catalogue::all(&mut r);
    r.result.unwrap_or_else(|| Err(format!("series replay: unknown composition {spec:?}")))
}
