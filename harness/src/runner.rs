//! Work units, the thread pool, proptest glue, partial evidence.

use std::collections::{BTreeMap, HashSet, VecDeque};
use std::sync::{Arc, Mutex};
use std::time::{Duration, Instant};

use proptest::test_runner::{Config, RngAlgorithm, TestCaseError, TestError, TestRng, TestRunner};
use serde_json::{json, Value};

use crate::history::*;
use crate::spec::*;
use crate::tape::{fnv1a, splitmix64, Tape};
use crate::util::Counters;

#[derive(Clone, Debug)]
pub struct Violation {
    pub property: String,
    pub engine: String,
    pub spec: String,
    pub variant: String,
    pub message: String,
    pub signature: String,
    pub case: Value,
    pub size: usize,
}

/// What one work unit (and, merged, one run) covered.
#[derive(Default)]
pub struct Partial {
    pub evaluations: u64,
    pub nontrivial: HashSet<u64>,
    /// non-trivial cases that are distinct by construction (exhaustive enumeration)
    pub nontrivial_enumerated: u64,
    pub samples: Vec<Value>,
    /// the first case of the run, used when no (small) non-trivial case was sampled
    pub fallback_sample: Option<Value>,
    pub classes: Counters,
    pub per_unit: BTreeMap<String, u64>,
    pub exhaustive: Vec<Value>,
    pub violations: Vec<Violation>,
    pub notes: Vec<String>,
    pub incomplete: Vec<String>,
}

impl Partial {
    pub fn merge(&mut self, o: Partial) {
        self.evaluations += o.evaluations;
        self.nontrivial.extend(o.nontrivial);
        self.nontrivial_enumerated += o.nontrivial_enumerated;
        for s in o.samples {
            if s.get("engine").and_then(|e| e.as_str()) == Some("scan") {
                self.samples.insert(0, s);
            } else if self.samples.len() < 12 {
                self.samples.push(s);
            }
        }
        if self.fallback_sample.is_none() {
            self.fallback_sample = o.fallback_sample;
        }
        self.classes.merge(&o.classes);
        for (k, v) in o.per_unit {
            *self.per_unit.entry(k).or_insert(0) += v;
        }
        self.exhaustive.extend(o.exhaustive);
        self.violations.extend(o.violations);
        self.notes.extend(o.notes);
        self.incomplete.extend(o.incomplete);
    }
}

pub struct Unit {
    pub name: String,
    pub run: Box<dyn FnOnce(&mut Partial, Instant) + Send>,
}

/// Run all units on `threads` worker threads. `deadline` is a safety net only (units are
/// fixed-work); units that have not started by then are listed as incomplete.
pub fn run_units(units: Vec<Unit>, threads: usize, deadline: Instant) -> Partial {
    let queue: Arc<Mutex<VecDeque<Unit>>> = Arc::new(Mutex::new(units.into_iter().collect()));
    let total: Arc<Mutex<Partial>> = Arc::new(Mutex::new(Partial::default()));
    let mut handles = Vec::new();
    for _ in 0..threads.max(1) {
        let queue = queue.clone();
        let total = total.clone();
        handles.push(
            std::thread::Builder::new()
                .stack_size(256 << 20)
                .spawn(move || loop {
                    let unit = { queue.lock().unwrap().pop_front() };
                    let Some(unit) = unit else { break };
                    let mut p = Partial::default();
                    if Instant::now() >= deadline {
                        p.incomplete.push(format!("{} (not started before the deadline)", unit.name));
                    } else {
                        let name = unit.name.clone();
                        let before = p.evaluations;
                        (unit.run)(&mut p, deadline);
                        let n = p.evaluations - before;
                        *p.per_unit.entry(name).or_insert(0) += n;
                        // thread-local histograms collected per unit
                        FORM_HITS.with(|h| {
                            for (k, v) in h.borrow_mut().iter() {
                                p.classes.add(&format!("form:{k}"), *v);
                            }
                            h.borrow_mut().clear();
                        });
                        CLASS_HITS.with(|h| {
                            for (k, v) in h.borrow_mut().iter() {
                                p.classes.add(&format!("value:{k}"), *v);
                            }
                            h.borrow_mut().clear();
                        });
                    }
                    total.lock().unwrap().merge(p);
                })
                .unwrap(),
        );
    }
    for h in handles {
        let _ = h.join();
    }
    let mut g = total.lock().unwrap();
    std::mem::take(&mut *g)
}

pub fn test_rng(seed: u64) -> TestRng {
    let mut bytes = [0u8; 32];
    let mut x = seed;
    for chunk in bytes.chunks_mut(8) {
        x = splitmix64(x);
        chunk.copy_from_slice(&x.to_le_bytes());
    }
    TestRng::from_seed(RngAlgorithm::ChaCha, &bytes)
}

pub fn derive_seed(base: u64, parts: &[&str]) -> u64 {
    let mut x = splitmix64(base);
    for p in parts {
        x = splitmix64(x ^ fnv1a(p.as_bytes()));
    }
    x
}

/// Drive `test` with `cases` generated tapes (proptest, fixed seed, no persistence); returns
/// the shrunk failing tape and message, if any.
pub fn drive_tapes(
    seed: u64,
    cases: u32,
    max_tape: usize,
    mut test: impl FnMut(&[u8]) -> Result<(), String>,
) -> Option<(Vec<u8>, String)> {
    let config = Config {
        cases,
        failure_persistence: None,
        max_shrink_iters: 400,
        max_local_rejects: 1,
        max_global_rejects: 1,
        ..Config::default()
    };
    let mut runner = TestRunner::new_with_rng(config, test_rng(seed));
    let strat = proptest::collection::vec(proptest::num::u8::ANY, 0..=max_tape);
    let test = std::cell::RefCell::new(&mut test);
    let res = runner.run(&strat, |tape| match (test.borrow_mut())(&tape) {
        Ok(()) => Ok(()),
        Err(m) => Err(TestCaseError::fail(m)),
    });
    match res {
        Ok(()) => None,
        Err(TestError::Fail(reason, tape)) => Some((tape, reason.message().to_string())),
        Err(TestError::Abort(reason)) => Some((Vec::new(), format!("proptest aborted: {reason}"))),
    }
}

/// Stable signature of a failure: property, engine, spec family and the message class.
pub fn signature(property: &str, engine: &str, message: &str) -> String {
    format!("{property}/{engine}/{}", message_class(message))
}

/// Collapse a message to its class: digits and quoted/debug payload removed, first words kept,
/// plus the panic site when there is one.
pub fn message_class(message: &str) -> String {
    let site = if message.contains(" @ ") { crate::util::panic_site(message) } else { String::new() };
    // drop the leading "op #N (kind): " and slot/item coordinates
    let mut m = message.to_string();
    if let Some(i) = m.rfind(" @ ") {
        m.truncate(i);
    }
    if let Some(i) = m.find("): ") {
        if m.starts_with("op #") {
            m = m[i + 3..].to_string();
        }
    }
    let mut out = String::new();
    let mut depth = 0i32;
    let mut in_str = false;
    for c in m.chars() {
        match c {
            '"' => in_str = !in_str,
            _ if in_str => {}
            '[' | '(' | '{' => depth += 1,
            ']' | ')' | '}' => depth -= 1,
            _ if depth > 0 => {}
            '0'..='9' => {}
            _ => out.push(c),
        }
    }
    let words: Vec<&str> = out.split_whitespace().filter(|w| w.len() > 1).take(9).collect();
    let mut cls = words.join("-");
    cls.retain(|c| c.is_ascii_alphanumeric() || c == '-' || c == '_');
    if cls.len() > 90 {
        cls.truncate(90);
    }
    if !site.is_empty() {
        format!("{cls}@{site}")
    } else {
        cls
    }
}

pub type NonTrivial<V> = fn(&[Op<V>], &RunStats) -> bool;

/// A unit that runs `cases` random histories of one spec under one configuration.
pub fn history_unit<S: Spec>(
    property: &'static str,
    variant: &'static str,
    caps: Caps<S::R>,
    cfg: HistCfg,
    cases: u32,
    max_tape: usize,
    seed: u64,
    nontrivial: NonTrivial<S::V>,
) -> Unit {
    let name = format!("{}#{}", S::name(), variant);
    let uname = name.clone();
    Unit {
        name,
        run: Box::new(move |p: &mut Partial, _deadline: Instant| {
            let seed = derive_seed(seed, &[property, variant, &S::name()]);
            let mut evals = 0u64;
            let mut failed = false;
            let mut local = Partial::default();
            let mut sample_budget = 1usize;
            let found = drive_tapes(seed, cases, max_tape, |tape| {
                let ops = decode_history::<S>(&mut Tape::new(tape), &cfg);
                let mut st = RunStats::default();
                let r = run_history::<S>(&ops, caps, &cfg, &mut st);
                if !failed {
                    evals += 1;
                    for op in &ops {
                        if let Op::Push { v, .. } = op {
                            let mut cls = Vec::new();
                            S::classes(v, &mut cls);
                            for c in cls {
                                class_hit(c);
                            }
                        }
                    }
                    local.classes.merge(&st.ev);
                    if nontrivial(&ops, &st) {
                        let h = hash_ops(&ops) ^ fnv1a(uname.as_bytes());
                        if local.nontrivial.insert(h) && sample_budget > 0 && ops.len() <= 12 {
                            sample_budget -= 1;
                            local.samples.push(json!({
                                "engine": "history", "spec": S::name(), "variant": variant,
                                "ops": serde_json::to_value(&ops).unwrap_or(Value::Null),
                            }));
                        }
                    }
                    if r.is_err() {
                        failed = true;
                    }
                }
                r
            });
            local.evaluations = evals;
            if let Some((tape, msg)) = found {
                let ops = decode_history::<S>(&mut Tape::new(&tape), &cfg);
                let sig = signature(property, "history", &msg);
                let want = message_class(&msg);
                let shrunk = shrink_history::<S>(
                    ops,
                    |cand| {
                        let mut st = RunStats::default();
                        match run_history::<S>(cand, caps, &cfg, &mut st) {
                            Err(m) => message_class(&m) == want,
                            Ok(()) => false,
                        }
                    },
                    4000,
                );
                let mut st = RunStats::default();
                let final_msg = run_history::<S>(&shrunk, caps, &cfg, &mut st).err().unwrap_or(msg);
                local.violations.push(Violation {
                    property: property.to_string(),
                    engine: "history".into(),
                    spec: S::name(),
                    variant: variant.to_string(),
                    message: final_msg,
                    signature: sig,
                    size: shrunk.len(),
                    case: json!({
                        "engine": "history", "spec": S::name(), "variant": variant,
                        "ops": serde_json::to_value(&shrunk).unwrap_or(Value::Null),
                    }),
                });
            }
            p.merge(local);
        }),
    }
}

/// Enumerate all histories up to `max_len` over `alphabet` (shortlex), keeping the first failing
/// case per signature and continuing.
pub fn exhaustive_history_unit<S: Spec>(
    property: &'static str,
    variant: &'static str,
    caps: Caps<S::R>,
    cfg: HistCfg,
    alphabet: Vec<Op<S::V>>,
    max_len: usize,
    nontrivial: NonTrivial<S::V>,
) -> Unit {
    let name = format!("{}#{}(exhaustive<= {})", S::name(), variant, max_len);
    let uname = name.clone();
    Unit {
        name,
        run: Box::new(move |p: &mut Partial, deadline: Instant| {
            let mut local = Partial::default();
            let k = alphabet.len();
            let mut seen_sigs: HashSet<String> = HashSet::new();
            let mut complete = true;
            let mut count = 0u64;
            'outer: for len in 0..=max_len {
                let mut idx = vec![0usize; len];
                loop {
                    let ops: Vec<Op<S::V>> = idx.iter().map(|i| alphabet[*i].clone()).collect();
                    let mut st = RunStats::default();
                    let r = run_history::<S>(&ops, caps, &cfg, &mut st);
                    count += 1;
                    if nontrivial(&ops, &st) {
                        local.nontrivial.insert(hash_ops(&ops) ^ fnv1a(uname.as_bytes()));
                    }
                    if count % 4096 == 0 {
                        local.classes.merge(&st.ev);
                        if Instant::now() >= deadline {
                            complete = false;
                            break 'outer;
                        }
                    }
                    if let Err(msg) = r {
                        let sig = signature(property, "history", &msg);
                        if seen_sigs.insert(sig.clone()) {
                            local.violations.push(Violation {
                                property: property.to_string(),
                                engine: "history".into(),
                                spec: S::name(),
                                variant: variant.to_string(),
                                message: msg,
                                signature: sig,
                                size: ops.len(),
                                case: json!({
                                    "engine": "history", "spec": S::name(), "variant": variant,
                                    "ops": serde_json::to_value(&ops).unwrap_or(Value::Null),
                                }),
                            });
                        }
                    }
                    // next index vector (odometer)
                    let mut pos = len;
                    let mut done = true;
                    while pos > 0 {
                        pos -= 1;
                        idx[pos] += 1;
                        if idx[pos] < k {
                            done = false;
                            break;
                        }
                        idx[pos] = 0;
                    }
                    if done {
                        break;
                    }
                }
            }
            local.evaluations = count;
            local.exhaustive.push(json!({
                "space": uname, "alphabet": k, "max_len": max_len, "cases": count, "complete": complete,
            }));
            if !complete {
                local.incomplete.push(format!("{uname}: enumeration stopped at the deadline"));
            }
            p.merge(local);
        }),
    }
}

pub fn default_deadline(tier: &str) -> Instant {
    Instant::now() + Duration::from_secs(if tier == "thorough" { 3 * 3600 } else { 1500 })
}

/// Generic structural shrinking of an operation list: delete chunks, then try the per-element
/// simplifications offered by `simplify`, to a fixpoint or until `budget` evaluations.
pub fn shrink_seq<T: Clone>(
    ops: Vec<T>,
    simplify: impl Fn(&T) -> Vec<T>,
    mut fails: impl FnMut(&[T]) -> bool,
    budget: usize,
) -> Vec<T> {
    let mut cur = ops;
    let mut evals = 0usize;
    let mut progress = true;
    while progress && evals < budget {
        progress = false;
        let mut chunk = (cur.len() / 2).max(1);
        loop {
            let mut i = 0;
            while i < cur.len() && evals < budget {
                let end = (i + chunk).min(cur.len());
                let mut cand = cur.clone();
                cand.drain(i..end);
                evals += 1;
                if fails(&cand) {
                    cur = cand;
                    progress = true;
                } else {
                    i += chunk;
                }
            }
            if chunk == 1 || evals >= budget {
                break;
            }
            chunk /= 2;
        }
        let mut i = 0;
        while i < cur.len() && evals < budget {
            let mut improved = false;
            for c in simplify(&cur[i]) {
                if evals >= budget {
                    break;
                }
                let mut cand = cur.clone();
                cand[i] = c;
                evals += 1;
                if fails(&cand) {
                    cur = cand;
                    improved = true;
                    progress = true;
                    break;
                }
            }
            if !improved {
                i += 1;
            }
        }
    }
    cur
}
