//! The typed catalogue: every composition the checks run on.

use flatcontainer::impls::index::{IndexList, IndexOptimized};
use flatcontainer::FlatStack;
use serde::de::DeserializeOwned;
use serde::Serialize;
use std::num::Wrapping;
use std::time::Duration;

use crate::combos::*;
use crate::leaves::*;
use crate::spec::*;

pub type IL = IndexList<Vec<u32>, Vec<u64>>;
pub type IO = IndexOptimized;
pub type VU = Vec<usize>;

pub type BytesR = Owned<u8>;
pub type StrS = Str<BytesR>;
pub type M8 = Mirror<u8>;

pub trait Visitor {
    fn visit<S: Spec>(&mut self, caps: Caps<S::R>);
}

macro_rules! full {
    ($v:ident, $($t:ty),* $(,)?) => { $( $v.visit::<$t>(caps_full::<<$t as Spec>::R>()); )* };
}
macro_rules! cloneonly {
    ($v:ident, $($t:ty),* $(,)?) => { $( $v.visit::<$t>(caps_clone::<<$t as Spec>::R>()); )* };
}
macro_rules! nocaps {
    ($v:ident, $($t:ty),* $(,)?) => { $( $v.visit::<$t>(caps_none::<<$t as Spec>::R>()); )* };
}

/// Terminal regions.
pub fn leaves<V: Visitor>(v: &mut V) {
    full!(v,
        Mirror<u8>, Mirror<u16>, Mirror<u32>, Mirror<u64>, Mirror<u128>, Mirror<usize>,
        Mirror<i8>, Mirror<i16>, Mirror<i32>, Mirror<i64>, Mirror<i128>, Mirror<isize>,
        Mirror<bool>, Mirror<char>, Mirror<()>, Mirror<f32>, Mirror<f64>,
        Mirror<Wrapping<i8>>, Mirror<Wrapping<i16>>, Mirror<Wrapping<i32>>, Mirror<Wrapping<i64>>,
        Mirror<Wrapping<i128>>, Mirror<Wrapping<isize>>, Mirror<Duration>,
        StrS, Str<Cip<BytesR, IO>>, Str<Cip<BytesR, VU>>,
        Owned<u8>, Owned<u64>, Owned<(u8, u16)>, Owned<String>, OwnedZst,
        VecR<u64>, VecR<String>,
    );
    cloneonly!(v, CodecPrefix, Huff<u8>, Huff<u16>);
    nocaps!(v, CodecDict, Str<CodecDict>);
}

/// A reduced set of terminal regions (for the more expensive properties).
pub fn leaves_core<V: Visitor>(v: &mut V) {
    full!(v,
        Mirror<u8>, Mirror<u64>, Mirror<i128>, Mirror<()>, Mirror<f64>, Mirror<char>,
        StrS, Str<Cip<BytesR, IO>>,
        Owned<u8>, Owned<(u8, u16)>, Owned<String>, OwnedZst,
        VecR<u64>, VecR<String>,
    );
    cloneonly!(v, CodecPrefix, Huff<u8>, Huff<u16>);
    nocaps!(v, CodecDict, Str<CodecDict>);
}

/// Fan-out, wrapper and nested regions.
pub fn composites<V: Visitor>(v: &mut V) {
    full!(v,
        // slices
        Slice<M8>, Slice<StrS>, Slice<Mirror<f64>>, Slice<Owned<u8>>, Slice<OwnedZst>,
        Slice<Slice<M8>>, Slice<Slice<StrS>>,
        Slice<Slice<Slice<Slice<Slice<M8>>>>>,
        Slice<Tup2<M8, StrS>>, Slice<Opt<StrS>>, Slice<Res<StrS, M8>>,
        Slice<Cip<StrS, IO>, IO>, Slice<Cip<Owned<u8>, VU>, VU>, Slice<Cip<StrS, IO>, IL>,
        Slice<VecR<u64>, IO>,
        // inner index = arbitrary usize value: the compressed index lists see non-dense sequences
        Slice<Mirror<usize>, IO>, Slice<Mirror<usize>, IL>, SliceN<Collapse<Cip<StrS, IO>>, IO>,
        SliceN<Columns<M8, IO>, IO>, SliceN<Collapse<StrS>>,
        SliceN<Columns<Tup3N<Mirror<usize>, Collapse<BytesR>, Collapse<StrS>>, IO>, VU>,
        // options / results / tuples
        Opt<StrS>, Opt<M8>, Opt<Mirror<()>>, Opt<Slice<M8>>, Opt<Opt<StrS>>,
        Res<StrS, Mirror<u16>>, Res<M8, M8>, Res<Slice<StrS>, Owned<u8>>, Res<Mirror<()>, StrS>,
        // components whose offsets compress to a stride: non-empty state without any heap
        Res<Cip<StrS, IO>, Cip<Owned<u8>, IO>>, ResN<M8, Columns<M8, IO>>, Opt<Cip<StrS, IO>>,
        Tup2<Cip<StrS, IO>, Cip<Owned<u8>, IO>>,
        Tup1<StrS>, Tup2<M8, StrS>, Tup3<Mirror<usize>, StrS, Slice<StrS>>,
        Tup2<Opt<StrS>, Res<M8, Owned<u8>>>, Tup2N<Collapse<StrS>, M8>,
        // consecutive index pairs
        Cip<Owned<u8>, IO>, Cip<Owned<u8>, VU>, Cip<Owned<u8>, IL>,
        Cip<StrS, IO>, Cip<StrS, VU>, Cip<StrS, IL>,
        Cip<Slice<M8>, IO>, Cip<Slice<StrS>, VU>, Cip<OwnedZst, IO>, Cip<OwnedZst, IL>,
        // columns
        Columns<M8, IO>, Columns<Mirror<u64>, VU>, Columns<M8, IL>, Columns<StrS, IO>,
        Columns<Cip<StrS, IO>, IO>, Columns<Collapse<Cip<StrS, IO>>, IO>,
        Columns<Slice<M8>, IO>, Columns<Opt<StrS>, VU>,
        // collapsing regions
        Collapse<StrS>, Collapse<Owned<u8>>, Collapse<Cip<StrS, IO>>, Collapse<Cip<Owned<u8>, VU>>,
        Collapse<M8>, Collapse<Mirror<f32>>, Collapse<Mirror<()>>, Collapse<Str<Cip<BytesR, IO>>>,
        // offsets beyond u32::MAX and 2^63 under a collapsing region (zero-sized elements)
        Collapse<Cip<OwnedZst, IO>>, Collapse<Cip<OwnedZst, IL>>,
    );
    cloneonly!(v,
        SliceN<Huff<u8>>, Cip<Huff<u8>, IO>, Columns<Huff<u8>, IO>, Cip<CodecPrefix, IO>,
        OptN<Huff<u16>>,
    );
    nocaps!(v,
        Cip<CodecDict, IO>, SliceN<Str<CodecDict>>, Columns<Str<CodecDict>, IO>,
        Tup2N<Str<CodecDict>, M8>,
    );
}

pub fn all<V: Visitor>(v: &mut V) {
    leaves(v);
    composites(v);
}

pub fn core<V: Visitor>(v: &mut V) {
    leaves_core(v);
    composites(v);
}

// ---------------------------------------------------------------------------------------------
// FlatStack catalogue: (region spec, index container)
// ---------------------------------------------------------------------------------------------

pub struct StackCaps<R: flatcontainer::Region, IC> {
    pub clone: Option<fn(&FlatStack<R, IC>) -> FlatStack<R, IC>>,
    pub clone_from: Option<fn(&mut FlatStack<R, IC>, &FlatStack<R, IC>)>,
    pub to_json: Option<fn(&FlatStack<R, IC>) -> Result<String, String>>,
    pub from_json: Option<fn(&str) -> Result<FlatStack<R, IC>, String>>,
}
impl<R: flatcontainer::Region, IC> Clone for StackCaps<R, IC> {
    fn clone(&self) -> Self {
        *self
    }
}
impl<R: flatcontainer::Region, IC> Copy for StackCaps<R, IC> {}

pub fn scaps_none<R: flatcontainer::Region, IC>() -> StackCaps<R, IC> {
    StackCaps { clone: None, clone_from: None, to_json: None, from_json: None }
}
pub fn scaps_clone<R: flatcontainer::Region + Clone, IC: Clone>() -> StackCaps<R, IC> {
    StackCaps {
        clone: Some(|s| s.clone()),
        clone_from: Some(|d, s| d.clone_from(s)),
        to_json: None,
        from_json: None,
    }
}
pub fn scaps_full<R, IC>() -> StackCaps<R, IC>
where
    R: flatcontainer::Region + Clone + Serialize + DeserializeOwned,
    IC: Clone + Serialize + DeserializeOwned,
{
    StackCaps {
        clone: Some(|s| s.clone()),
        clone_from: Some(|d, s| d.clone_from(s)),
        to_json: Some(|s| serde_json::to_string(s).map_err(|e| e.to_string())),
        from_json: Some(|s| serde_json::from_str(s).map_err(|e| e.to_string())),
    }
}

pub trait StackVisitor {
    fn visit<S: Spec, IC: IcKind<Idx<S>> + Default>(&mut self, caps: StackCaps<S::R, IC>);
}

macro_rules! sfull {
    ($v:ident, $(($t:ty, $ic:ty)),* $(,)?) => { $( $v.visit::<$t, $ic>(scaps_full::<<$t as Spec>::R, $ic>()); )* };
}
macro_rules! sclone {
    ($v:ident, $(($t:ty, $ic:ty)),* $(,)?) => { $( $v.visit::<$t, $ic>(scaps_clone::<<$t as Spec>::R, $ic>()); )* };
}
macro_rules! snone {
    ($v:ident, $(($t:ty, $ic:ty)),* $(,)?) => { $( $v.visit::<$t, $ic>(scaps_none::<<$t as Spec>::R, $ic>()); )* };
}

pub fn stacks<V: StackVisitor>(v: &mut V) {
    sfull!(v,
        (StrS, Vec<(usize, usize)>), (M8, Vec<u8>), (Mirror<f64>, Vec<f64>),
        (Slice<StrS>, Vec<(usize, usize)>), (Slice<Slice<M8>>, Vec<(usize, usize)>),
        (Opt<StrS>, Vec<Option<(usize, usize)>>),
        (Res<StrS, Mirror<u16>>, Vec<Result<(usize, usize), u16>>),
        (Tup3<Mirror<usize>, StrS, Slice<StrS>>, Vec<(usize, (usize, usize), (usize, usize))>),
        (Collapse<StrS>, Vec<(usize, usize)>),
        (Owned<u8>, Vec<(usize, usize)>), (OwnedZst, Vec<(usize, usize)>),
        // usize-indexed regions with every index container
        (Cip<StrS, IO>, VU), (Cip<StrS, IO>, IO), (Cip<StrS, IO>, IL),
        (Cip<Owned<u8>, VU>, IO), (Cip<OwnedZst, IL>, IO),
        (Columns<M8, IO>, VU), (Columns<M8, IO>, IO), (Columns<StrS, IO>, IL),
        (Columns<Collapse<Cip<StrS, IO>>, IO>, IO),
        (Collapse<Cip<StrS, IO>>, IO), (Collapse<Cip<StrS, IO>>, IL), (Collapse<Cip<StrS, IO>>, VU),
        (VecR<u64>, IO), (VecR<String>, VU), (VecR<u64>, IL),
        // the index *is* the value: arbitrary usize sequences through FlatStack
        (Mirror<usize>, IO), (Mirror<usize>, IL), (Mirror<usize>, VU),
        (Collapse<Mirror<usize>>, IO),
    );
    sclone!(v, (Huff<u8>, Vec<(usize, usize)>), (Cip<Huff<u8>, IO>, IO), (CodecPrefix, Vec<(usize, usize)>));
    snone!(v, (CodecDict, Vec<(usize, usize)>), (Cip<CodecDict, IO>, IO), (Str<CodecDict>, Vec<(usize, usize)>));
}
