//! A counting global allocator (harness side; nothing in /repo changes). Counters are
//! thread-local and only advance while the current thread has counting switched on.

use std::alloc::{GlobalAlloc, Layout, System};
use std::cell::Cell;

pub struct Counting;

thread_local! {
    static ON: Cell<bool> = const { Cell::new(false) };
    static CALLS: Cell<u64> = const { Cell::new(0) };
    static BYTES: Cell<u64> = const { Cell::new(0) };
}

#[inline]
fn note(size: usize) {
    // try_with: the allocator may be called during thread teardown
    let _ = ON.try_with(|on| {
        if on.get() {
            let _ = CALLS.try_with(|c| c.set(c.get() + 1));
            let _ = BYTES.try_with(|b| b.set(b.get() + size as u64));
        }
    });
}

unsafe impl GlobalAlloc for Counting {
    unsafe fn alloc(&self, layout: Layout) -> *mut u8 {
        note(layout.size());
        System.alloc(layout)
    }
    unsafe fn dealloc(&self, ptr: *mut u8, layout: Layout) {
        System.dealloc(ptr, layout)
    }
    unsafe fn alloc_zeroed(&self, layout: Layout) -> *mut u8 {
        note(layout.size());
        System.alloc_zeroed(layout)
    }
    unsafe fn realloc(&self, ptr: *mut u8, layout: Layout, new_size: usize) -> *mut u8 {
        note(new_size);
        System.realloc(ptr, layout, new_size)
    }
}

/// Run `f` with counting on; returns (result, allocator calls, bytes requested).
pub fn measure<T>(f: impl FnOnce() -> T) -> (T, u64, u64) {
    let c0 = CALLS.with(|c| c.get());
    let b0 = BYTES.with(|b| b.get());
    ON.with(|on| on.set(true));
    let r = f();
    ON.with(|on| on.set(false));
    let c1 = CALLS.with(|c| c.get());
    let b1 = BYTES.with(|b| b.get());
    (r, c1 - c0, b1 - b0)
}

/// Whether the counting allocator is installed (the binary installs it; unit tests may not).
pub fn installed() -> bool {
    let (_, calls, _) = measure(|| {
        let v: Vec<u8> = Vec::with_capacity(64);
        std::hint::black_box(&v);
    });
    calls > 0
}
