//! Entry points shared by the libFuzzer targets (thorough tier) and `fcverif tape`: a raw byte
//! string selects a property configuration and a catalogue entry, the rest is the tape.

use serde_json::{json, Value};

use crate::catalogue::{self, StackCaps, StackVisitor, Visitor};
use crate::engines::{codec, huffman, index, stack};
use crate::history::*;
use crate::props::{hist_cfg, spec_info, SpecInfo};
use crate::runner::{message_class, shrink_seq, signature, Violation};
use crate::spec::*;
use crate::tape::Tape;

/// History-engine configurations reachable from the fuzzer: (property, variant).
pub const HIST_VARIANTS: &[(&str, &str)] = &[
    ("C01", "batch"),
    ("C02", "hist"),
    ("C04", "hist"),
    ("C08", "hist"),
    ("C09", "hist"),
    ("C10", "hist"),
    ("C11", "hist"),
    ("C12", "hist"),
    ("C16", "hist"),
    ("C18", "hist"),
    ("C20", "hist"),
];

fn applies(property: &str, i: &SpecInfo) -> bool {
    match property {
        "C04" => i.stringy,
        "C09" => i.can_clone,
        "C11" => i.collapsing,
        "C12" => i.dense,
        "C16" => i.can_serde && i.json_safe,
        "C18" => i.heap,
        _ => true,
    }
}

struct HistPick<'a> {
    property: &'static str,
    variant: &'static str,
    target: usize,
    seen: usize,
    tape: &'a [u8],
    explain: bool,
    result: Option<Result<(), Violation>>,
}

impl<'a> Visitor for HistPick<'a> {
    fn visit<S: Spec>(&mut self, caps: Caps<S::R>) {
        if self.result.is_some() {
            return;
        }
        let info = spec_info::<S>(&caps);
        if !applies(self.property, &info) {
            return;
        }
        if self.seen != self.target {
            self.seen += 1;
            return;
        }
        self.seen += 1;
        let cfg = hist_cfg(self.property, self.variant).expect("variant");
        let ops = decode_history::<S>(&mut Tape::new(self.tape), &cfg);
        let mut st = RunStats::default();
        let r = run_history::<S>(&ops, caps, &cfg, &mut st);
        self.result = Some(match r {
            Ok(()) => Ok(()),
            Err(msg) => {
                let (ops, msg) = if self.explain {
                    let want = message_class(&msg);
                    let shrunk = shrink_history::<S>(
                        ops,
                        |cand| {
                            let mut st = RunStats::default();
                            matches!(run_history::<S>(cand, caps, &cfg, &mut st), Err(m) if message_class(&m) == want)
                        },
                        3000,
                    );
                    let mut st = RunStats::default();
                    let m = run_history::<S>(&shrunk, caps, &cfg, &mut st).err().unwrap_or(msg);
                    (shrunk, m)
                } else {
                    (ops, msg)
                };
                Err(Violation {
                    property: self.property.to_string(),
                    engine: "history".into(),
                    spec: S::name(),
                    variant: self.variant.to_string(),
                    signature: signature(self.property, "history", &msg),
                    message: msg,
                    size: ops.len(),
                    case: json!({"engine": "history", "spec": S::name(), "variant": self.variant,
                                 "ops": serde_json::to_value(&ops).unwrap_or(Value::Null)}),
                })
            }
        });
    }
}

struct Count {
    property: &'static str,
    n: usize,
}
impl Visitor for Count {
    fn visit<S: Spec>(&mut self, caps: Caps<S::R>) {
        if applies(self.property, &spec_info::<S>(&caps)) {
            self.n += 1;
        }
    }
}

/// data[0]: configuration, data[1]: catalogue entry, data[2..]: tape.
pub fn history(data: &[u8], explain: bool) -> Result<(), Violation> {
    if data.len() < 3 {
        return Ok(());
    }
    // FCVERIF_FUZZ_PROP pins the configuration (the driver fuzzes one property at a time)
    let forced = std::env::var("FCVERIF_FUZZ_PROP").ok();
    let (property, variant) = match forced.as_deref().and_then(|f| HIST_VARIANTS.iter().find(|(p, _)| *p == f)) {
        Some(pv) => *pv,
        None => HIST_VARIANTS[data[0] as usize % HIST_VARIANTS.len()],
    };
    let mut c = Count { property, n: 0 };
    catalogue::all(&mut c);
    if c.n == 0 {
        return Ok(());
    }
    let mut p = HistPick { property, variant, target: data[1] as usize % c.n, seen: 0, tape: &data[2..], explain, result: None };
    catalogue::all(&mut p);
    p.result.unwrap_or(Ok(()))
}

struct StackPick<'a> {
    property: &'static str,
    target: usize,
    seen: usize,
    tape: &'a [u8],
    explain: bool,
    result: Option<Result<(), Violation>>,
}
impl<'a> StackVisitor for StackPick<'a> {
    fn visit<S: Spec, IC: IcKind<Idx<S>> + Default>(&mut self, caps: StackCaps<S::R, IC>) {
        if self.result.is_some() {
            return;
        }
        if self.seen != self.target {
            self.seen += 1;
            return;
        }
        self.seen += 1;
        let cfg = stack::stack_cfg(self.property);
        let ops = stack::decode_stack_ops::<S>(&mut Tape::new(self.tape), &cfg);
        let mut st = stack::SStats::default();
        let name = format!("FlatStack<{},{}>", S::name(), <IC as IcKind<Idx<S>>>::NAME);
        self.result = Some(match stack::run_stack::<S, IC>(&ops, caps, &cfg, &mut st) {
            Ok(()) => Ok(()),
            Err(msg) => {
                let ops = if self.explain {
                    let want = message_class(&msg);
                    shrink_seq(
                        ops,
                        |_| Vec::new(),
                        |cand| {
                            let mut st = stack::SStats::default();
                            matches!(stack::run_stack::<S, IC>(cand, caps, &cfg, &mut st), Err(m) if message_class(&m) == want)
                        },
                        2000,
                    )
                } else {
                    ops
                };
                let mut st = stack::SStats::default();
                let msg = stack::run_stack::<S, IC>(&ops, caps, &cfg, &mut st).err().unwrap_or(msg);
                Err(Violation {
                    property: self.property.to_string(),
                    engine: "stack".into(),
                    spec: name.clone(),
                    variant: "stack".into(),
                    signature: signature(self.property, "stack", &msg),
                    message: msg,
                    size: ops.len(),
                    case: json!({"engine": "stack", "stack": name, "ops": serde_json::to_value(&ops).unwrap_or(Value::Null)}),
                })
            }
        });
    }
}
struct StackCount(usize);
impl StackVisitor for StackCount {
    fn visit<S: Spec, IC: IcKind<Idx<S>> + Default>(&mut self, _caps: StackCaps<S::R, IC>) {
        self.0 += 1;
    }
}

/// data[0]: stack property flavour, data[1]: pair, data[2..]: tape.
pub fn stack(data: &[u8], explain: bool) -> Result<(), Violation> {
    if data.len() < 3 {
        return Ok(());
    }
    const STACK_PROPS: [&str; 8] = ["C03", "C02", "C08", "C09", "C10", "C16", "C18", "C19"];
    let forced = std::env::var("FCVERIF_FUZZ_PROP").ok();
    let property = match forced.as_deref().and_then(|f| STACK_PROPS.iter().find(|p| **p == f)) {
        Some(p) => *p,
        None => STACK_PROPS[data[0] as usize % STACK_PROPS.len()],
    };
    let mut c = StackCount(0);
    catalogue::stacks(&mut c);
    let mut p = StackPick { property, target: data[1] as usize % c.0.max(1), seen: 0, tape: &data[2..], explain, result: None };
    catalogue::stacks(&mut p);
    p.result.unwrap_or(Ok(()))
}

/// data[0]: container, data[1..]: tape of index operations (C05 and C19 oracles together).
pub fn index(data: &[u8], explain: bool) -> Result<(), Violation> {
    use flatcontainer::impls::index::{IndexOptimized, Stride};
    if data.len() < 2 {
        return Ok(());
    }
    let ops = index::decode_ops(&mut Tape::new(&data[1..]), 2000);
    fn go<C: index::Subject>(ops: Vec<index::IOp>, explain: bool) -> Result<(), Violation> {
        let mut st = index::IStats::default();
        match index::run_ops::<C>(&ops, true, &mut st) {
            Ok(()) => Ok(()),
            Err(msg) => {
                let ops = if explain {
                    let want = message_class(&msg);
                    index::shrink_ops(ops, |cand| {
                        let mut st = index::IStats::default();
                        matches!(index::run_ops::<C>(cand, true, &mut st), Err(m) if message_class(&m) == want)
                    })
                } else {
                    ops
                };
                let mut st = index::IStats::default();
                let msg = index::run_ops::<C>(&ops, true, &mut st).err().unwrap_or(msg);
                let property = if msg.contains("documented rule") || msg.contains("no heap") { "C19" } else { "C05" };
                Err(Violation {
                    property: property.into(),
                    engine: "index".into(),
                    spec: C::NAME.into(),
                    variant: "fuzz".into(),
                    signature: signature(property, &format!("index:{}", C::NAME), &msg),
                    message: msg,
                    size: ops.len(),
                    case: json!({"engine": "index", "container": C::NAME, "cost": true, "ops": serde_json::to_value(&ops).unwrap()}),
                })
            }
        }
    }
    match data[0] % 4 {
        0 => go::<Stride>(ops, explain),
        1 => go::<IndexOptimized>(ops, explain),
        2 => go::<index::IL>(ops, explain),
        _ => go::<Vec<usize>>(ops, explain),
    }
}

pub fn huffman(data: &[u8], _explain: bool) -> Result<(), Violation> {
    let case = huffman::decode_case(&mut Tape::new(data), true);
    let mut st = huffman::HStats::default();
    match huffman::run_any(&case, &mut st) {
        Ok(()) => Ok(()),
        Err(msg) => Err(Violation {
            property: "C06".into(),
            engine: "huffman".into(),
            spec: if case.wide { "Huffman<u16>".into() } else { "Huffman<u8>".into() },
            variant: "fuzz".into(),
            signature: signature("C06", "huffman", &msg),
            message: msg,
            size: case.gens.iter().map(|g| g.items.len()).sum::<usize>() + case.counts.len(),
            case: json!({"engine": "huffman", "case": serde_json::to_value(&case).unwrap()}),
        }),
    }
}

pub fn codec(data: &[u8], _explain: bool) -> Result<(), Violation> {
    let case = codec::decode_case(&mut Tape::new(data), false);
    let mut st = codec::CStats::default();
    match codec::run_case(&case, &mut st) {
        Ok(()) => Ok(()),
        Err(msg) => Err(Violation {
            property: "C07".into(),
            engine: "codec".into(),
            spec: "Codec<Dictionary>".into(),
            variant: "fuzz".into(),
            signature: signature("C07", "codec", &msg),
            message: msg,
            size: case.ops.len(),
            case: json!({"engine": "codec", "ops": serde_json::to_value(&case.ops).unwrap()}),
        }),
    }
}

pub fn run_target(target: &str, data: &[u8], explain: bool) -> Result<(), Violation> {
    match target {
        "fuzz_history" => history(data, explain),
        "fuzz_stack" => stack(data, explain),
        "fuzz_index" => index(data, explain),
        "fuzz_huffman" => huffman(data, explain),
        "fuzz_codec" => codec(data, explain),
        _ => Ok(()),
    }
}

/// Called by the libFuzzer targets: abort (= crash for libFuzzer) on a violation.
pub fn fuzz_one(target: &str, data: &[u8]) {
    static HOOK: std::sync::Once = std::sync::Once::new();
    // replace libFuzzer's abort-on-panic hook: expected panics (refusals, out-of-bounds probes)
    // are caught and judged by the oracles
    HOOK.call_once(|| {
        crate::util::install_panic_hook();
        crate::spec::LIGHT_GENERATORS.store(true, std::sync::atomic::Ordering::Relaxed);
    });
    if let Err(v) = run_target(target, data, false) {
        eprintln!("VIOLATION property={} engine={} spec={}\n  {}", v.property, v.engine, v.spec, v.message);
        std::process::abort();
    }
}
