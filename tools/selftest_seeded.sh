#!/bin/bash
# Re-runs every seeded change against the quick search (chk profile) of the properties listed in
# its meta.json (breaks_property + caught_by_quick), in a scratch copy of /repo and of the harness,
# so /repo itself is never touched. Usage: selftest_seeded.sh [scratch-dir] [threads] [id-prefix...]
# Writes seeded/RESULTS.md next to this script's repository root (or $OUT_MD).
set -u
ROOT="$(cd "$(dirname "$0")/.." && pwd)"
SCRATCH="${1:-/var/tmp/fcverif-selftest}"
THREADS="${2:-8}"
shift 2 2>/dev/null || true
OUT_MD="${OUT_MD:-$ROOT/seeded/RESULTS.md}"
rm -rf "$SCRATCH"; mkdir -p "$SCRATCH"
git -C /repo worktree add -q --detach "$SCRATCH/repo" HEAD || exit 9
trap 'git -C /repo worktree remove --force "$SCRATCH/repo" 2>/dev/null; rm -rf "$SCRATCH"' EXIT
rsync -a --exclude target "$ROOT/harness/" "$SCRATCH/harness/"
sed -i "s#flatcontainer = { path = \"/repo\" }#flatcontainer = { path = \"$SCRATCH/repo\" }#" "$SCRATCH/harness/Cargo.toml"
cd "$SCRATCH/harness" || exit 9
export FCVERIF_REPO_SRC="$SCRATCH/repo/src"
export CARGO_NET_OFFLINE=true
cargo build --offline --bin fcverif >"$SCRATCH/build.log" 2>&1 || { echo "baseline build failed"; tail -5 "$SCRATCH/build.log"; exit 2; }
{
echo "# Seeded changes against the quick tier (chk profile)"
echo
echo "Produced by tools/selftest_seeded.sh on $(git -C "$ROOT" rev-parse --short HEAD 2>/dev/null) / repo $(git -C /repo rev-parse --short HEAD)."
echo
echo "| seeded | property | result per property |"
echo "|---|---|---|"
} > "$OUT_MD"
FAIL=0
for d in "$ROOT"/seeded/S*/; do
  id=$(basename "$d")
  if [ $# -gt 0 ]; then match=0; for pfx in "$@"; do case "$id" in $pfx*) match=1;; esac; done; [ $match = 1 ] || continue; fi
  props=$(python3 -c "
import json,sys
m=json.load(open('$d/meta.json'))
ps=[m['breaks_property']]+m.get('caught_by_quick',[])
seen=[]
[seen.append(p) for p in ps if p not in seen]
print(' '.join(seen))")
  main=$(python3 -c "import json; print(json.load(open('$d/meta.json'))['breaks_property'])")
  git -C "$SCRATCH/repo" checkout -q -- . 
  if ! git -C "$SCRATCH/repo" apply "$d/patch.diff" 2>/dev/null; then echo "| $id | $main | PATCH DOES NOT APPLY |" >> "$OUT_MD"; FAIL=1; continue; fi
  if ! cargo build --offline --bin fcverif >"$SCRATCH/build.log" 2>&1; then echo "| $id | $main | BUILD FAILED |" >> "$OUT_MD"; FAIL=1; continue; fi
  res=""
  caught_any=0
  for p in $props; do
    ./target/debug/fcverif run --prop $p --tier quick --seed ${VERIF_SEED:-20260926} --threads $THREADS --out "$SCRATCH/out.json" >/dev/null 2>&1
    n=$(python3 -c "
import json
try:
    d=json.load(open('$SCRATCH/out.json')); print(len({v['signature'] for v in d['violations']}))
except Exception: print(-1)")
    if [ "$n" -gt 0 ]; then res="$res $p:caught($n)"; caught_any=1; else res="$res $p:missed"; fi
    # optionally keep the smallest failing case as a regression replay (passes on the clean tree)
    if [ -n "${REPLAY_OUT:-}" ] && [ "$n" -gt 0 ]; then
      python3 - "$SCRATCH/out.json" "$REPLAY_OUT/$p-seeded-${id%%-*}.json" "$id" <<'PY'
import json,sys
d=json.load(open(sys.argv[1]))
v=min(d['violations'], key=lambda v:(v.get('size',0), len(json.dumps(v['case']))))
if len(json.dumps(v['case'])) < 200000:
    doc={"property":v['property'],"signature":v['signature'],"profile":"chk","spec":v.get('spec'),
         "message":"found with seeded change %s applied: %s" % (sys.argv[3], v['message'][:300]),"case":v['case']}
    json.dump(doc,open(sys.argv[2],'w'),indent=1,sort_keys=True)
PY
    fi
  done
  [ $caught_any = 1 ] || FAIL=1
  echo "| $id | $main |$res |" >> "$OUT_MD"
  echo "$id:$res"
done
git -C "$SCRATCH/repo" checkout -q -- .
echo >> "$OUT_MD"
echo "Every seeded change must be caught by at least one listed property; exit status $FAIL." >> "$OUT_MD"
exit $FAIL
