#!/usr/bin/env python3
"""Generates /verif/MANIFEST.json from the table below (kept in one place so it stays valid)."""
import json, os
ROOT = os.path.dirname(os.path.dirname(os.path.abspath(__file__)))

CHECKS = {
 # id: (engine, technique, level text, level note, design ref)
 "C01": ("history", "property-based testing (proptest tapes -> push/read histories) against an owned reference model; round-trip oracle over a typed catalogue of compositions, both build profiles",
         "Randomised search: every catalogued composition receives generated values through generated input forms and is read back with every accessor; no failure in N cases is evidence, not proof.",
         "trusts the harness's owned reference values and deep read oracle; coded regions only within their acceptance contract", "DESIGN.md 4/C01"),
 "C02": ("history", "stateful model-based PBT: histories of push/reserve ops, all issued indices re-read after every step; bounded-exhaustive short histories on tiny domains",
         "Randomised + bounded-exhaustive history search with a history invariant (old indices keep reading the recorded value).",
         "trusts the reference model; growth events are observed through heap_size capacities", "DESIGN.md 4/C02"),
 "C04": ("history", "stateful PBT on string-bearing compositions with adversarial multi-byte strings; every &str re-validated with from_utf8 and compared byte-wise; static enumeration of impl Push<_> for StringRegion headers and unsafe blocks",
         "Randomised history search plus an exhaustive scan of the finite program text for the by-construction clause.",
         "trusts std::str::from_utf8 as the validity oracle; the source scan is syntactic", "DESIGN.md 4/C04"),
 "C08": ("history", "metamorphic PBT: history;clear;history' compared step by step with a twin universe using Default::default(), plus an independent index-prediction model",
         "Randomised + bounded-exhaustive search over (before, after) history pairs.", "trusts the index prediction model and twin execution", "DESIGN.md 4/C08"),
 "C09": ("history", "stateful PBT with clone / clone_from into pre-filled destinations, diverging continuations, per-copy reference models and a clone-vs-clone_from twin",
         "Randomised history search on every Clone-able composition.", "trusts the reference models", "DESIGN.md 4/C09"),
 "C10": ("history", "metamorphic PBT: histories with reserve_items/reserve_regions/merge_regions compared with a twin without reservations and with the default-region index model",
         "Randomised history search.", "trusts the index model; coded regions within their acceptance contract", "DESIGN.md 4/C10"),
 "C11": ("history", "model-based PBT of collapse decisions (index equality iff model equality, nothing stored on a hit, exact storage model), bounded-exhaustive over small alphabets incl. clear/merge/clone/serde",
         "Randomised + bounded-exhaustive search against an independent dedup model.", "trusts the dedup and storage models", "DESIGN.md 4/C11"),
 "C12": ("history", "model-based PBT: k-th push returns k and reads the k-th value, across clear/merge; bounded-exhaustive row-width sequences",
         "Randomised + bounded-exhaustive search.", "trusts the reference model", "DESIGN.md 4/C12"),
 "C13": ("history", "PBT with out-of-bounds probing of every slice/row read item (region-backed and owned-borrowed) in regions with adjacent items; returning a value is the violation",
         "Randomised search over regions, items and positions.", "panics are observed with catch_unwind", "DESIGN.md 4/C13"),
 "C16": ("history", "metamorphic PBT: region replaced by from_str(to_string(region)) at arbitrary points, compared with a never-serialised twin and the index/storage models",
         "Randomised history search through serde_json.", "JSON format limits (non-finite floats, Option<()>, huge ZST slices) are excluded and listed", "DESIGN.md 4/C16"),
 "C18": ("history", "stateful PBT with a per-composition storage model: used<=capacity, the model's lower bound on the sum of used bytes, monotonicity, clear rule; plus long series (2^12..2^14 pushes into one region, invariants after every push)",
         "Randomised history search against a storage model computed from the reference values.", "trusts the storage model (sizes of index entries and payload)", "DESIGN.md 4/C18"),
 "C20": ("history", "metamorphic PBT: histories mixing all input forms compared with a twin fed the canonical form (indices, used bytes, reads)",
         "Randomised history search; form coverage is measured per impl Push header.", "trusts twin execution", "DESIGN.md 4/C20"),
 "C03": ("stack", "stateful model-based PBT of FlatStack histories (copy/extend/from_iter/clear/clone/reserve/merge_capacity/serde) against a Vec of owned values, per (region, index container) pair; out-of-bounds get must panic",
         "Randomised history search over 36 (region composition, index container) pairs.", "trusts the Vec reference model and the deep read oracle", "DESIGN.md 4/C03"),
 "C05": ("index", "bounded-exhaustive enumeration of push/clear sequences over a transition-covering alphabet plus proptest op lists, against a Vec<usize> reference and a u128 acceptor of the documented stride pattern; both build profiles",
         "Exhaustive up to the stated length over the stated alphabet (flagged per sub-space in the evidence) plus randomised search beyond; unbounded sequences are sampled only.", "trusts the reference vector and the u128 stride acceptor", "DESIGN.md 4/C05"),
 "C06": ("huffman", "PBT + bounded-exhaustive enumeration of (frequency profile, item sequence, generation) cases against exact-decode, bit-accounting, refusal and an independent optimal-cost (two-queue Huffman) oracle",
         "Randomised + bounded-exhaustive search; optimality is compared by total cost so any tie-break is accepted.", "trusts the harness's reference Huffman cost and the symbol-count model", "DESIGN.md 4/C06"),
 "C07": ("codec", "stateful PBT of push/merge_regions/clear histories over four dictionary-coded regions against a reference model of the source statistics: exact bytes or permitted refusal, stored-byte deltas, one-byte rule under a sufficient condition",
         "Randomised history search incl. lossy-summary cases (>1024 distinct strings).", "trusts the statistics model; the one-byte rule is only asserted under a tie-safe sufficient condition", "DESIGN.md 4/C07"),
 "C14": ("laws", "PBT of the IntoOwned laws (into_owned, borrow_as, clone_onto over arbitrary prior targets, reborrow) and region-to-region copies on every catalogued composition, incl. trained coded regions",
         "Randomised search over (region contents, item, prior target, destination contents).", "trusts the owned reference values", "DESIGN.md 4/C14"),
 "C15": ("order", "bounded-exhaustive + random triples of small-domain values in different regions/representations; eq/cmp/partial_cmp against the owned values' lexicographic order and the total-order laws",
         "Exhaustive over all triples of vectors of length <= 3 over a 2-symbol alphabet x all representation assignments, plus randomised search with longer vectors.", "trusts std's Vec ordering as the reference", "DESIGN.md 4/C15"),
 "C17": ("alloc", "PBT with a counting global allocator in the harness: pre-size by reserve_items / reserve_regions / merge_regions / merge_capacity, push exactly the announced contents, capacities constant and zero allocator calls; logarithmic call bound for n = 2^6..2^14 (2^16) without pre-sizing over three value pools and three by-reference input forms",
         "Randomised search over batches and routes; the asymptotic clause is sampled at fixed n against explicit constants.", "trusts the counting allocator (thread-local, enabled only around the measured pushes) and heap_size capacities", "DESIGN.md 4/C17"),
 "C19": ("index", "the C05 enumeration and random op lists with the documented space rule computed independently in u128, plus FlatStack histories over dense-index regions; heap_size used/capacity against the rule",
         "Exhaustive up to the stated length over the stated alphabet plus randomised search.", "trusts the harness's reading of the documented rule; being cheaper than documented is accepted", "DESIGN.md 4/C19"),
}
PENDING = {}

def main():
    props = [json.loads(l) for l in open(os.path.join(ROOT, "properties.jsonl"))]
    checks, na = [], []
    for p in props:
        pid = p["id"]
        if pid in CHECKS:
            eng, tech, text, note, ref = CHECKS[pid]
            checks.append({
                "property_id": pid,
                "quick_cmd": f"./check {pid} quick",
                "thorough_cmd": f"./check {pid} thorough",
                "evidence_file": f"/verif/evidence/{pid}.json",
                "replay_cmd_template": "./check --replay {path}",
                "engine": eng,
                "level_claimed": {"category": "exploration", "text": text, "design_ref": ref},
                "level_note": note,
                "technique": tech,
            })
        else:
            na.append({"property_id": pid, "reason": PENDING.get(pid, "check not built yet (work in progress); no claim is made")})
    engines = [
        {"name": "history", "path": "harness/src/history.rs", "serves_properties": sorted(k for k, v in CHECKS.items() if v[0] == "history"),
         "kind_free_text": "stateful model-based property testing over a typed catalogue of region compositions (proptest-generated tapes, structural shrinking, twin universes)"},
    ]
    extra = {}
    for k, v in CHECKS.items():
        if v[0] != "history":
            extra.setdefault(v[0], []).append(k)
    for name, ids in sorted(extra.items()):
        engines.append({"name": name, "path": f"harness/src/engines/{name}.rs", "serves_properties": sorted(ids),
                        "kind_free_text": "dedicated generated-input engine, see DESIGN.md"})
    m = {
        "version": 1,
        "setup_cmd": "./check --build",
        "hooks": {
            "guard": "flatcontainer_verif",
            "enable": "none needed: every observation goes through the public API (RUSTFLAGS='--cfg flatcontainer_verif' is reserved but unused)",
            "baseline_off_cmd": "cd /repo && cargo test --workspace --no-fail-fast --offline",
            "source_commits": [],
            "add_only": True,
        },
        "engines": engines,
        "checks": checks,
        "not_applicable": na,
        "notes": "All checks: ./check <id> quick|thorough, seeds from VERIF_SEED, evidence in /verif/evidence/<id>.json, known findings in /verif/known_findings.jsonl. Fix commits in /repo are listed there as 'fixed:' lines.",
    }
    json.dump(m, open(os.path.join(ROOT, "MANIFEST.json"), "w"), indent=1)
    print(f"{len(checks)} checks, {len(na)} not_applicable")

main()
