#!/bin/bash
# Like try_mutant.sh, but in a scratch copy of /repo and of the harness (never touches /repo, so it
# can run while checks are running against /repo). The scratch is kept for the next call;
# remove it with: try_mutant_scratch.sh --clean
set -u
ROOT="$(cd "$(dirname "$0")/.." && pwd)"
SCRATCH=/var/tmp/fcverif-scratch
if [ "${1:-}" = "--clean" ]; then git -C /repo worktree remove --force "$SCRATCH/repo" 2>/dev/null; rm -rf "$SCRATCH"; git -C /repo worktree prune; exit 0; fi
DIFF=$1; shift
if [ ! -d "$SCRATCH/repo" ]; then mkdir -p "$SCRATCH"; git -C /repo worktree add -q --detach "$SCRATCH/repo" HEAD || exit 9; fi
git -C "$SCRATCH/repo" checkout -q -- .
rsync -a --exclude target "$ROOT/harness/" "$SCRATCH/harness/"
sed -i "s#flatcontainer = { path = \"/repo\" }#flatcontainer = { path = \"$SCRATCH/repo\" }#" "$SCRATCH/harness/Cargo.toml"
git -C "$SCRATCH/repo" apply "$DIFF" || { echo "APPLY-FAILED"; exit 1; }
export FCVERIF_REPO_SRC="$SCRATCH/repo/src"
cd "$SCRATCH/harness" && CARGO_NET_OFFLINE=true cargo build --offline --bin fcverif >"$SCRATCH/build.log" 2>&1 || { echo "BUILD-FAILED"; tail -5 "$SCRATCH/build.log"; git -C "$SCRATCH/repo" checkout -q -- .; exit 2; }
for P in "$@"; do
  ./target/debug/fcverif run --prop $P --tier quick --seed ${VERIF_SEED:-20260926} --threads ${THREADS:-6} --out "$SCRATCH/out-$P.json" >/dev/null 2>&1
  python3 - "$P" "$SCRATCH/out-$P.json" <<'PY'
import json,sys
p,f=sys.argv[1:3]
try: d=json.load(open(f))
except Exception as e: print(p,'NO-RESULT',e); sys.exit()
sigs={}
for v in d['violations']: sigs.setdefault(v['signature'],v)
print(p, 'CAUGHT' if sigs else 'missed', len(sigs),'signature(s)', f"{d['evaluations']} evals {d['wall_s']:.1f}s")
for s,v in list(sigs.items())[:2]: print('    ', v['spec'],'|', v['message'][:220])
PY
done
git -C "$SCRATCH/repo" checkout -q -- .
