#!/usr/bin/env python3
"""add_seeded.py <worktree> <k> <seed-id> <property> <caught-by(comma list or 'none')> [<missed-by>]"""
import json, os, shutil, sys
wt, k, sid, prop, caught = sys.argv[1:6]
missed = sys.argv[6] if len(sys.argv) > 6 else ""
d = f"/verif/seeded/{sid}"
os.makedirs(d, exist_ok=True)
shutil.copy(f"{wt}/out/m{k}.diff", f"{d}/patch.diff")
shutil.copy(f"{wt}/out/m{k}_demo.rs", f"{d}/demo.rs")
notes = open(f"{wt}/out/m{k}.md").read()
open(f"{d}/notes.md", "w").write(notes)
meta = {
    "id": sid, "breaks_property": prop,
    "needs_to_manifest": notes.strip(),
    "origin": "independent sub-agent given only the property text and a scratch worktree",
    "confirmed": "tools/confirm_mutant.sh in the scratch worktree: git apply patch.diff; cargo test --offline passes (61 unit + 3 integration + 11 doc tests); demo.rs copied to tests/ fails with the change and passes on the clean tree",
    "checked_with": "tools/try_mutant.sh patch.diff <properties> (git -C /repo apply; quick search in the chk profile; git -C /repo checkout -- .)",
    "caught_by_quick": [c for c in caught.split(",") if c and c != "none"],
    "missed_by_quick": [c for c in missed.split(",") if c],
}
json.dump(meta, open(f"{d}/meta.json", "w"), indent=1)
print("added", sid)
