#!/bin/bash
# End-to-end test of the alarm path through the driver: apply a seeded change to /repo, expect
# `./check <prop> quick` to exit 1 with a VIOLATION line and a replay file that fails when
# replayed; restore /repo, expect the replay and the check to pass. Usage: e2e_violation_test.sh [seeded-id] [prop]
set -u
ID=${1:-S01-columns-reserve-regions-truncates}; PROP=${2:-C10}
cd /verif || exit 9
[ -z "$(git -C /repo status --porcelain --untracked-files=no)" ] || { echo "/repo not clean"; exit 9; }
git -C /repo apply /verif/seeded/$ID/patch.diff || exit 9
trap 'git -C /repo checkout -q -- .' EXIT
OUT=$(./check $PROP quick 2>/dev/null); RC=$?
echo "$OUT" | head -3
[ $RC = 1 ] || { echo "FAIL: expected exit 1 with the change applied, got $RC"; exit 1; }
REPLAY=$(echo "$OUT" | sed -n 's/^VIOLATION property=[A-Z0-9]* replay=//p' | head -1)
[ -f "$REPLAY" ] || { echo "FAIL: no replay file"; exit 1; }
./check --replay "$REPLAY" >/dev/null 2>&1; [ $? = 1 ] || { echo "FAIL: replay does not fail with the change applied"; exit 1; }
git -C /repo checkout -q -- .
./check --replay "$REPLAY" >/dev/null 2>&1; [ $? = 0 ] || { echo "FAIL: replay fails on the unchanged tree"; exit 1; }
./check $PROP quick >/dev/null 2>&1; [ $? = 0 ] || { echo "FAIL: check not green on the unchanged tree"; exit 1; }
echo "E2E OK: $ID / $PROP (replay $REPLAY)"
