#!/bin/bash
# usage: confirm_mutant.sh <worktree> <k>   -- re-verifies an agent's mutant in its scratch worktree
# exit 0 iff: suite passes with the change, demo fails with it, demo passes without it.
set -u
WT=$1; K=$2
cd "$WT" || exit 9
git checkout -q -- . ; rm -f tests/m${K}_demo.rs
git apply out/m${K}.diff || { echo "APPLY-FAILED"; exit 1; }
if ! cargo test --offline --no-fail-fast >/tmp/confirm-$$.log 2>&1; then echo "SUITE-FAILS-WITH-CHANGE"; tail -20 /tmp/confirm-$$.log; git checkout -q -- .; exit 2; fi
cp out/m${K}_demo.rs tests/m${K}_demo.rs
if cargo test --offline --test m${K}_demo >/tmp/confirm-$$.log 2>&1; then echo "DEMO-PASSES-WITH-CHANGE"; git checkout -q -- .; rm -f tests/m${K}_demo.rs; exit 3; fi
if ! grep -q "test result: FAILED" /tmp/confirm-$$.log; then echo "DEMO-DID-NOT-RUN"; tail -20 /tmp/confirm-$$.log; git checkout -q -- .; rm -f tests/m${K}_demo.rs; exit 4; fi
git checkout -q -- .
if ! cargo test --offline --test m${K}_demo >/tmp/confirm-$$.log 2>&1; then echo "DEMO-FAILS-ON-CLEAN"; tail -20 /tmp/confirm-$$.log; rm -f tests/m${K}_demo.rs; exit 5; fi
rm -f tests/m${K}_demo.rs /tmp/confirm-$$.log
git status --short | grep -v '^?? out/' | head -3
echo "CONFIRMED"
