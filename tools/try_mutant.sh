#!/bin/bash
# usage: try_mutant.sh <diff> <prop> [<prop>...]  -- applies a seeded change to /repo, runs the
# quick search of the given properties in the chk profile (fast screening), restores /repo.
set -u
DIFF=$1; shift
cd /repo || exit 9
if [ -n "$(git status --porcelain --untracked-files=no)" ]; then echo "/repo not clean"; exit 9; fi
git apply "$DIFF" || { echo "APPLY-FAILED"; exit 1; }
trap 'git -C /repo checkout -q -- .' EXIT
cd /verif/harness && CARGO_NET_OFFLINE=true cargo build --offline --bin fcverif >/verif/target-out/mut-build.log 2>&1 || { echo "BUILD-FAILED"; tail -5 /verif/target-out/mut-build.log; exit 2; }
for P in "$@"; do
  ./target/debug/fcverif run --prop $P --tier quick --seed ${VERIF_SEED:-20260926} --out /verif/target-out/mut-$P.json >/dev/null 2>/verif/target-out/mut-$P.err
  python3 - "$P" <<'PY'
import json,sys
p=sys.argv[1]
try:
    d=json.load(open(f'/verif/target-out/mut-{p}.json'))
except Exception as e:
    print(p,'NO-RESULT',e); sys.exit()
sigs={}
for v in d['violations']: sigs.setdefault(v['signature'],v)
print(p, 'CAUGHT' if sigs else 'missed', len(sigs),'signature(s)', f"{d['evaluations']} evals {d['wall_s']:.1f}s")
for s,v in list(sigs.items())[:2]:
    print('    ', v['spec'],'|', v['message'][:220])
PY
done
